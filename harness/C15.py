"""C15 - grammars stay well-formed under edits and validate exactly their definition.

A ``SimpleGrammar`` and a ``JSONGrammar`` are driven in lock-step with a small reference model by a history of edit
operations chosen by the solver (``ctx.choice``); after every step the representation invariants, the reference model,
the acceptance table (one value kind per name against a canonical accepted dictionary, every missing name) and - for
the JSON grammar - the reference validator ``jsonschema`` are compared with what the real grammars answer.

Every path is concrete once the choices are made: the solver's role here is the exhaustive enumeration (with pruning)
of the histories / data dictionaries within the bound, and the production of the counterexample.

Harnesses
  histories    edit histories (recipe fixed by cfg, first operation fixed by cfg, the others chosen by the solver)
  data         a two-element definition (cfg) against a solver-chosen data dictionary (present flags x value kinds)
  schema_view  JSON only: the ``schema`` / ``to_json`` views list the required names and are not changed by validate
  from_schema  JSON only: ``update_from_schema`` on an already edited grammar
  convert      ``JSONGrammar.to_simple_grammar`` / ``SimpleGrammar.update(JSONGrammar)`` agree with the JSON grammar
"""
from __future__ import annotations

import copy as _copy
import json
import pickle
from collections.abc import Mapping
from pathlib import Path

import numpy as np

META = dict(
    bounds=dict(
        quick="histories: an initial grammar built by one of 6 fixed recipes (0-4 operations, some with a validate in between) followed by "
              "2 operations from the wide menu (48-71 instances per step: update_from_names/types/data with and without merge, update from 4 "
              "operand grammars with exclusions and merge, restrict_to, rename_element, __delitem__, required_names.add/discard, defaults[...]=v, "
              "defaults setter, del defaults[...], add_namespace, clear, copy, pickle round trip, read-only queries, and the same with a name "
              "that is not an element) or by 3 operations from the narrow menu (14-22 instances); the first operation is fixed by the "
              "configuration, the others are chosen by the solver; names {a, b, ns:a} (+ c as rename target, ns:b by namespacing, zz as extra "
              "data name); type tags {int, float, str, bool, ndarray, None}; intermediate steps validate 3 value kinds per name (or nothing: "
              "observe=none), the last step validates 10 value kinds per element and every missing name, for both grammars and for jsonschema; "
              "data: 2 elements x 7 tags x solver-chosen required flags against a solver-chosen dictionary (absent | 10 kinds) x (absent | 4 kinds) x extra name",
        thorough="histories: 2 wide operations after every recipe with three observation modes (validate / touch the schema only / nothing "
                 "between the edits), 3 wide operations after recipe R1, 3 narrow operations after every recipe x 3 modes, 4 narrow operations "
                 "after recipe R2; 18 value kinds (2-D / empty arrays, tuples, lists of strings, nested mappings, False, 0, negative floats); "
                 "data: 7 x 7 tags, (absent | 18 kinds)^2 x extra name",
    ),
    outside=[
        "PydanticGrammar (outside the claim)",
        "every path is concrete once the choices are made: the solver enumerates (with pruning) the histories and data dictionaries within "
        "the bound and provides the counterexample; nothing is proved beyond the bound",
        "cases on which the property and the documentation are silent are accepted both ways: bool for an int element, int / complex / bool for a "
        "float element, complex for an int element, list/tuple for an array element, 2-D arrays for an element bound by update_from_names, "
        "an element typed None merged with a typed one, an array of numbers merged with an unconstrained array, the required status of an element that was required and is updated from a grammar "
        "(or schema) where it is optional; integral floats (1.0) are never used as data (integer in draft-6+, not in draft-4)",
        "renaming (or namespacing) onto an existing name, default values equal to None, update_from_data with int arrays / None / nested values",
        "element order, error messages, logging, descriptions, update_from_file / to_file (file I/O), data converters",
        "stale entries of to_namespaced/from_namespaced after renaming or deleting a namespaced element (only mutual inverseness is claimed), "
        "whether a conversion to SimpleGrammar carries the namespace maps",
        "the JSON files shipped with the disciplines as initial grammars",
        "CrossHair: update_namespaces with symbolic dictionary KEYS (not confirmed in 30 s; keys are concrete, values symbolic); "
        "split_namespace on nested namespaces (documented example refuted on the pinned tree, contract kept in the file but not registered)",
    ],
    stubs=["none: the real grammars run on plain Python/NumPy data; the reference validator is jsonschema (Draft4Validator for draft-04 "
           "schemas, Draft7Validator otherwise) applied to grammar.schema; in the histories/data/from_schema/convert harnesses the 'required' "
           "entry handed to jsonschema is taken from grammar.required_names (the 'required' entry of the schema view itself is checked in schema_view)"],
    assumptions=[
        "data rendered to JSON the documented way, restated in the harness: arrays as (nested) lists of numbers, tuples as lists, mappings as objects",
        "SimpleGrammar cannot merge (documented): merge=True must raise ValueError and leave it unchanged, the lock-step then continues with the JSON grammar only",
        "a JSON grammar is only updated from JSON grammars, a simple grammar from simple grammars (harness convert: from a JSON grammar)",
        "complex values have no documented JSON rendering: dictionaries containing one are not submitted to jsonschema",
        "an operation refused with the documented exception (KeyError for a name that is not an element, ValueError for a second namespace) must leave the grammar unchanged",
    ],
)

NAMES = ["a", "b", "ns:a"]
EXTRA = "zz"
NS = "ns"
SEP = ":"

# ------------------------------------------------------------------------------------------------------------------
# value kinds and the documented acceptance table
# ------------------------------------------------------------------------------------------------------------------
KINDS_Q = ["int", "float", "complex", "str", "bool", "none", "farr", "iarr", "list", "dict"]
KINDS_T = KINDS_Q + ["arr2d", "empty", "tuple", "strlist", "nested", "false", "zero", "negfloat"]


_VALUES = {
    "int": lambda: 3, "float": lambda: 1.5, "complex": lambda: 1.5 + 2j, "str": lambda: "s", "bool": lambda: True, "none": lambda: None,
    "farr": lambda: np.array([1.5, 2.5]), "iarr": lambda: np.array([1, 2]), "list": lambda: [1.5, 2.5], "dict": lambda: {"k": 1},
    "arr2d": lambda: np.array([[1.5, 2.5]]), "empty": lambda: np.array([]), "tuple": lambda: (1.5, 2.5), "strlist": lambda: ["x"],
    "nested": lambda: {"k": np.array([1.5])}, "false": lambda: False, "zero": lambda: 0, "negfloat": lambda: -0.5,
}


def value(kind):
    """A fresh value of the given kind."""
    return _VALUES[kind]()


_E = None  # "either": the property / documentation is silent
# tag -> {kind: True | None}; a kind that is not listed is rejected
TABLE = {
    "int": {"int": True, "zero": True, "bool": _E, "false": _E, "complex": _E},
    "float": {"float": True, "negfloat": True, "int": _E, "zero": _E, "complex": _E, "bool": _E, "false": _E},
    "str": {"str": True},
    "bool": {"bool": True, "false": True},
    # bound to the type ndarray by update_from_types
    "ndarray": {"farr": True, "iarr": True, "arr2d": True, "empty": True, "list": _E, "tuple": _E, "strlist": _E},
    # bound to "NumPy arrays" by update_from_names / by a 1-D float array in update_from_data
    "arr_num": {"farr": True, "iarr": True, "empty": True, "arr2d": _E, "list": _E, "tuple": _E},
}
PYTYPE = {"int": int, "float": float, "str": str, "bool": bool, "ndarray": np.ndarray, "any": None}
DATA_TAG = {"int": "int", "float": "float", "str": "str", "bool": "bool", "farr": "arr_num"}


def allowed(tags, kind):
    """Is a value of this kind allowed for an element whose definition is the union of ``tags``?  True / False / None (either)."""
    typed = [t for t in tags if t != "any"]
    if not typed:
        return True
    if "ndarray" in typed and "arr_num" in typed and kind in ("arr2d", "strlist"):
        return None  # two array definitions merged: whether the item type of one of them survives is undocumented
    res = False
    for t in typed:
        a = TABLE[t].get(kind, False)
        if a is True:
            return True
        if a is None:
            res = None
    if "any" in tags:  # an unconstrained definition merged with typed ones: undocumented what remains
        return None
    return res


def render(v):
    """JSON rendering of a data value, the documented way (restated, NOT the grammar's private cast)."""
    if isinstance(v, np.ndarray):
        return render(v.tolist())
    if isinstance(v, np.generic):
        return v.item()
    if isinstance(v, Mapping):
        return {k: render(x) for k, x in v.items()}
    if isinstance(v, (list, tuple)):
        return [render(x) for x in v]
    return v


def reference_validator(schema, required):
    """A jsonschema validator for the schema of a grammar; ``required`` (when not None) replaces the schema's own entry."""
    import jsonschema

    s = _copy.deepcopy(dict(schema))
    s.pop("id", None)
    if required is not None:
        s.pop("required", None)
        if required:
            s["required"] = sorted(required)
    cls = jsonschema.Draft4Validator if "draft-04" in str(s.get("$schema", "")) else jsonschema.Draft7Validator
    s.pop("$schema", None)
    return cls(s)


# ------------------------------------------------------------------------------------------------------------------
# reference model
# ------------------------------------------------------------------------------------------------------------------
class Ref:
    """name -> [set of type tags, required in {True, False, None=either}], name -> default value."""

    def __init__(self):
        self.el = {}
        self.dflt = {}

    def clone(self):
        r = Ref()
        r.el = {n: [set(t), q] for n, (t, q) in self.el.items()}
        r.dflt = dict(self.dflt)
        return r

    def define(self, name, tag, merge, required=True):
        """(Re)define an element; ``required=False`` means "not listed as required by the source of the definition"."""
        old = self.el.get(name)
        tags = (old[0] | {tag}) if (merge and old is not None) else {tag}
        if required:
            req = True
        elif old is None or old[1] is False:
            req = False
        else:
            req = None  # was (possibly) required, the new definition does not require it: undocumented
        self.el[name] = [tags, req]


def ref_apply(ref, op, others):
    """The documented effect of ``op`` on the reference: ("ok", new reference) or ("raise", exception types)."""
    r = ref.clone()
    k = op[0]
    if k == "names":
        for n in op[1]:
            r.define(n, "arr_num", op[2])
        return "ok", r
    if k == "types":
        r.define(op[1], op[2], op[3])
        return "ok", r
    if k == "data":
        r.define(op[1], DATA_TAG[op[2]], op[3])
        return "ok", r
    if k == "update":
        o = others(op[1])[2]
        excluded, merge = op[2], op[3]
        for n, (tags, req) in o.el.items():
            if n in excluded:
                continue
            old = r.el.get(n)
            new_tags = (old[0] | tags) if (merge and old is not None) else set(tags)
            old_req = old[1] if old is not None else False
            if req is True:
                new_req = True
            elif old_req is False:
                new_req = False
            else:
                new_req = None  # was (possibly) required, is optional in the other grammar: undocumented
            r.el[n] = [new_tags, new_req]
        for n, v in o.dflt.items():
            if n not in excluded:
                r.dflt[n] = v
        return "ok", r
    if k == "restrict":
        if any(n not in r.el for n in op[1]):
            return "raise", (KeyError,)
        r.el = {n: e for n, e in r.el.items() if n in op[1]}
        r.dflt = {n: v for n, v in r.dflt.items() if n in op[1]}
        return "ok", r
    if k == "rename":
        if op[1] not in r.el:
            return "raise", (KeyError,)
        r.el = {(op[2] if n == op[1] else n): e for n, e in r.el.items()}
        if op[1] in r.dflt:
            r.dflt[op[2]] = r.dflt.pop(op[1])
        return "ok", r
    if k == "del":
        if op[1] not in r.el:
            return "raise", (KeyError,)
        del r.el[op[1]]
        r.dflt.pop(op[1], None)
        return "ok", r
    if k == "req_add":
        if op[1] not in r.el:
            return "raise", (KeyError,)
        r.el[op[1]][1] = True
        return "ok", r
    if k == "req_discard":
        if op[1] in r.el:
            r.el[op[1]][1] = False
        return "ok", r
    if k == "default":
        if op[1] not in r.el:
            return "raise", (KeyError,)
        r.dflt[op[1]] = op[2]
        return "ok", r
    if k == "defaults_set":
        if op[1] not in r.el:
            return "raise", (KeyError,)
        r.dflt = {op[1]: op[2]}
        return "ok", r
    if k == "default_del":
        if op[1] not in r.dflt:
            return "raise", (KeyError,)
        del r.dflt[op[1]]
        return "ok", r
    if k == "add_ns":
        if op[1] not in r.el:
            return "raise", (KeyError,)
        if SEP in op[1]:
            return "raise", (ValueError,)
        new = NS + SEP + op[1]
        r.el = {(new if n == op[1] else n): e for n, e in r.el.items()}
        if op[1] in r.dflt:
            r.dflt[new] = r.dflt.pop(op[1])
        return "ok", r
    if k == "clear":
        return "ok", Ref()
    if k in ("copy", "pickle", "queries", "validate"):
        return "ok", r
    raise ValueError(op)


def is_merge(op):
    return (op[0] == "names" and op[2]) or (op[0] in ("types", "data", "update") and op[3])


# ------------------------------------------------------------------------------------------------------------------
# real grammars
# ------------------------------------------------------------------------------------------------------------------
def new_grammar(kind, name="g"):
    from gemseo.core.grammars.json_grammar import JSONGrammar
    from gemseo.core.grammars.simple_grammar import SimpleGrammar

    return (SimpleGrammar if kind == "simple" else JSONGrammar)(name)


def do_op(g, op, other=None):
    """Apply an edit to a real grammar; returns the grammar to continue with (a new object for copy / pickle)."""
    k = op[0]
    if k == "names":
        g.update_from_names(list(op[1]), merge=op[2])
    elif k == "types":
        g.update_from_types({op[1]: PYTYPE[op[2]]}, merge=op[3])
    elif k == "data":
        g.update_from_data({op[1]: value(op[2])}, merge=op[3])
    elif k == "update":
        g.update(other, excluded_names=list(op[2]), merge=op[3])
    elif k == "restrict":
        g.restrict_to(list(op[1]))
    elif k == "rename":
        g.rename_element(op[1], op[2])
    elif k == "del":
        del g[op[1]]
    elif k == "req_add":
        g.required_names.add(op[1])
    elif k == "req_discard":
        g.required_names.discard(op[1])
    elif k == "default":
        g.defaults[op[1]] = op[2]
    elif k == "defaults_set":
        g.defaults = {op[1]: op[2]}
    elif k == "default_del":
        del g.defaults[op[1]]
    elif k == "add_ns":
        g.add_namespace(op[1], NS)
    elif k == "clear":
        g.clear()
    elif k == "copy":
        return g.copy()
    elif k == "pickle":
        return pickle.loads(pickle.dumps(g))
    elif k == "queries":
        read_only_queries(g)
    elif k == "validate":
        g.validate({n: value("farr") for n in g}, raise_exception=False)
    else:
        raise ValueError(op)
    return g


def is_json(g):
    return hasattr(g, "to_json")


def read_only_queries(g):
    """Every read-only query of the public interface (their results are not used)."""
    from gemseo.core.grammars.errors import InvalidDataError

    names = list(g.keys())
    len(g), list(iter(g)), list(g.names), list(g.names_without_namespace), list(g.items()), list(g.values())
    "a" in g, EXTRA in g, g.get("a"), g.has_names(["a"]), g.has_names(names), bool(g)
    for n in names:
        g[n]
    repr(g), str(g), g.name
    sorted(g.required_names), len(g.required_names), "a" in g.required_names, g.required_names.get_names_difference(["a"]), str(g.required_names)
    dict(g.defaults), len(g.defaults), g.defaults.get("a"), repr(g.defaults), g.defaults.copy()
    dict(g.to_namespaced), dict(g.from_namespaced), g.data_converter
    if is_json(g):
        g.schema, g.to_json(), g.to_json(indent=2)
    g.validate({n: value("farr") for n in names}, raise_exception=False)
    g.validate({}, raise_exception=False)
    g.validate({EXTRA: value("str")}, raise_exception=False)
    try:
        g.validate({n: value("dict") for n in names})
    except InvalidDataError:
        pass
    if is_json(g):
        g.schema, g.to_json()


def strip_schema(s):
    s = _copy.deepcopy(dict(s))
    s.pop("required", None)
    s.pop("id", None)
    return s


def ns_pairs(mapping):
    out = set()
    for k, vs in mapping.items():
        for v in [vs] if isinstance(vs, str) else vs:
            out.add((k, v))
    return out


def snapshot(g, with_schema=True):
    """Observable definition of a grammar, taken without touching its caches (``to_json`` is rebuilt from the builder).

    ``with_schema=False``: ``to_json`` is not called at all (it re-synchronizes the required names of the schema builder, which
    would hide a stale builder state, e.g. right after unpickling)."""
    d = dict(names=list(g.keys()), required=sorted(g.required_names), defaults=sorted((k, repr(v)) for k, v in g.defaults.items()),
             to_ns=sorted(ns_pairs(g.to_namespaced)), from_ns=sorted(ns_pairs(g.from_namespaced)))
    if not with_schema:
        return d
    if is_json(g):
        d["schema"] = strip_schema(json.loads(g.to_json()))
    else:
        d["types"] = [(n, getattr(t, "__name__", repr(t))) for n, t in g.items()]
    return d


def snap_diff(a, b, order=True):
    out = []
    for k in a:
        x, y = a[k], b[k]
        if k == "names" and not order:
            x, y = sorted(x), sorted(y)
        if k == "types" and not order:
            x, y = sorted(x), sorted(y)
        if k == "schema" and not order:
            x, y = _canon(x), _canon(y)
        if x != y:
            out.append(k)
    return out


def _canon(s):
    """A schema up to the order of its properties and of its type lists."""
    if isinstance(s, dict):
        return {k: _canon(v) for k, v in sorted(s.items())}
    if isinstance(s, list):
        c = [_canon(v) for v in s]
        try:
            return sorted(c, key=lambda v: json.dumps(v, sort_keys=True))
        except TypeError:
            return c
    return s


def fmt(p):
    return "{" + ", ".join(f"{n}:={k}" for n, k in p.items()) + "}"


def accepts(g, data):
    from gemseo.core.grammars.errors import InvalidDataError

    try:
        g.validate(data)
    except InvalidDataError:
        return False
    return True


# ------------------------------------------------------------------------------------------------------------------
# operation menus
# ------------------------------------------------------------------------------------------------------------------
OTHERS = {
    "O0": [("types", "a", "int", False), ("default", "a", 7)],
    "O1": [("names", ("a",), False), ("types", "b", "str", False), ("req_discard", "b"), ("default", "b", "d")],
    "O2": [("types", "a", "float", False), ("add_ns", "a")],
    "O3": [],
}

RECIPES = {
    "R0": [],
    "R1": [("types", "a", "int", False), ("names", ("b",), False), ("req_discard", "b"), ("default", "b", 50)],
    "R2": [("names", ("a", "b"), False), ("add_ns", "a"), ("default", "ns:a", 51)],
    "R3": [("data", "a", "float", False), ("data", "b", "str", False), ("types", "ns:a", "any", False), ("validate",)],
    "R4": [("types", "a", "float", False), ("validate",), ("names", ("a",), True)],  # JSON only from the merge on
    "R5": [("names", ("a",), False), ("pickle",), ("types", "b", "bool", False), ("req_discard", "a")],
    # a freshly unpickled grammar (its schema builder still carries the state of the pickled schema), then any two operations
    "R6": [("names", ("a", "b"), False), ("default", "b", 52), ("pickle",)],
}


def menu(ref, level, step):
    """The operation instances offered at a step (deterministic function of the reference state)."""
    cur = list(ref.el)
    wide = level == "wide"
    dv = 100 + step
    ops = []
    # --- creators -------------------------------------------------------------------------------------------
    if wide:
        for names in (("a",), ("b",), ("ns:a",), ("a", "b")):
            ops.append(("names", names, False))
        ops.append(("names", ("a",), True))
        for tag in ("int", "float", "str", "bool", "ndarray", "any"):
            ops.append(("types", "a", tag, False))
        for tag in ("int", "str", "any"):
            ops.append(("types", "a", tag, True))
        ops += [("types", "b", "int", False), ("types", "b", "any", False), ("types", "ns:a", "float", False)]
        for kind in ("int", "float", "str", "bool", "farr"):
            ops.append(("data", "a", kind, False))
        ops += [("data", "a", "str", True), ("data", "b", "float", False)]
        for oid, excl in (("O0", ()), ("O0", ("a",)), ("O1", ()), ("O1", ("a",)), ("O1", ("b",)), ("O2", ()), ("O3", ())):
            ops.append(("update", oid, excl, False))
        for oid, excl in (("O0", ()), ("O1", ()), ("O1", ("b",)), ("O3", ())):
            ops.append(("update", oid, excl, True))
    else:
        ops += [("names", ("a", "b"), False), ("names", ("a",), True)]
        ops += [("types", "a", "int", False), ("types", "a", "any", False), ("types", "a", "str", True), ("types", "b", "float", False)]
        ops += [("data", "a", "farr", False)]
        ops += [("update", "O1", (), False), ("update", "O1", ("a",), False), ("update", "O0", (), True)]
    # --- editors of existing elements -------------------------------------------------------------------------
    free = [n for n in ["c"] + NAMES if n not in ref.el]
    if wide:
        subsets = [()] + [(n,) for n in cur] + ([tuple(cur)] if len(cur) > 1 else []) + ([tuple(cur[:2])] if len(cur) > 2 else [])
        ops += [("restrict", s) for s in subsets] + [("restrict", (EXTRA,))]
        ops += [("rename", n, new) for n in cur for new in free[:2]] + [("rename", EXTRA, "c")]
        ops += [("del", n) for n in cur] + [("del", EXTRA)]
        for n in cur + [EXTRA]:
            ops += [("req_add", n), ("req_discard", n), ("default", n, dv)]
        ops += [("add_ns", n) for n in cur if SEP in n or (NS + SEP + n) not in ref.el]
        ops += [("defaults_set", n, dv) for n in cur[:1] + [EXTRA]] + [("default_del", n) for n in list(ref.dflt)[:1] + [EXTRA]]
    else:
        first, last = cur[:1], cur[-1:]
        ops += [("restrict", (n,)) for n in first]
        ops += [("rename", n, free[0]) for n in first if free]   # no free name left: nothing to rename to
        ops += [("del", n) for n in last]
        ops += [("req_add", n) for n in first]
        ops += [("req_discard", n) for n in (first + last if first != last else first)]
        ops += [("default", n, dv) for n in first]
        ops += [("add_ns", n) for n in last if SEP in n or (NS + SEP + n) not in ref.el]
    ops += [("clear",), ("copy",), ("pickle",), ("queries",)]
    return ops


def pick(ctx, name, n):
    """A solver-chosen index in range(n), as two small choices when n is large."""
    if n <= 8:
        return ctx.choice(name, n)
    hi = ctx.choice(name + "h", (n + 7) // 8)
    lo = ctx.choice(name + "l", min(8, n - 8 * hi))
    return 8 * hi + lo


# ------------------------------------------------------------------------------------------------------------------
# the lock-step environment
# ------------------------------------------------------------------------------------------------------------------
class Stop(Exception):
    """The path ends here (an unexpected exception was reported as a failed obligation)."""


class Env:
    def __init__(self, ctx, cfg, kinds, use_simple=True, use_json=True):
        self.ctx = ctx
        self.kinds = kinds
        self.g = {}
        if use_simple:
            self.g["simple"] = new_grammar("simple")
        if use_json:
            self.g["json"] = new_grammar("json")
        self.ref = Ref()
        self.prefix = ""
        self.watch = []  # (what, grammar, snapshot): operands / originals that must stay as they were
        self._others = {}
        self.fails = {}
        self.n_accept = 0
        self.agree_ns = True
        self.simple_free = set()  # elements a SimpleGrammar cannot express (convert): nothing is claimed about them

    # -- obligations, one per (step, component) -------------------------------------------------------------
    def fail(self, component, msg):
        self.fails.setdefault(component, []).append(msg)

    def flush(self, tag, what):
        """One obligation per failing component (its first message is part of the label), a single one when all hold."""
        if not self.fails:
            self.ctx.check(f"{self.prefix}{tag} {what}", self.ctx.true())
            return
        for c in list(self.fails):
            msgs = self.fails.pop(c)
            self.ctx.check(f"{self.prefix}{tag} {c}: {msgs[0]}" + (f" (+{len(msgs) - 1} more)" if len(msgs) > 1 else ""), self.ctx.false())

    # -- other grammars (operands of update) -------------------------------------------------------------------
    def others(self, oid):
        if oid not in self._others:
            ref = Ref()
            gs = {}
            for kind in ("simple", "json"):
                g = new_grammar(kind, name="other")
                for op in OTHERS[oid]:
                    g = do_op(g, op)
                gs[kind] = g
            for op in OTHERS[oid]:
                ref = ref_apply(ref, op, None)[1]
            self._others[oid] = (gs["simple"], gs["json"], ref)
            for kind in ("simple", "json"):
                self.watch.append((f"operand {oid} ({kind})", gs[kind], snapshot(gs[kind])))
        return self._others[oid]

    # -- one edit ----------------------------------------------------------------------------------------------
    def apply(self, op, tag):
        status, newref = ref_apply(self.ref, op, self.others)
        opname = op[0]
        for kind in list(self.g):
            g = self.g[kind]
            other = None
            if opname == "update":
                o = self.others(op[1])
                other = o[0] if kind == "simple" else o[1]
            before = snapshot(g)
            expect_raise = None
            if status == "raise":
                expect_raise = newref
            elif kind == "simple" and is_merge(op) and not (opname == "update" and not self.others(op[1])[2].el):
                expect_raise = (ValueError,)  # documented: SimpleGrammar cannot merge
            try:
                g2 = do_op(g, op, other)
            except Exception as e:  # noqa: BLE001
                if expect_raise is not None and isinstance(e, expect_raise):
                    d = snap_diff(before, snapshot(g))
                    if d:
                        self.fail(f"{kind} {opname} refused", f"the grammar changed although {type(e).__name__} was raised: {d}")
                    if status != "raise":
                        del self.g[kind]  # the simple grammar leaves the lock-step
                    continue
                self.fail(f"{kind} op raised {type(e).__name__}", f"{opname}" if self.prefix else f"{opname}: {str(e)[:100]}")
                self.flush(tag, "operation")
                raise Stop from None
            if expect_raise is not None:
                self.fail(f"{kind} {opname}", f"{op!r} must raise {expect_raise[0].__name__}")
                if status != "raise":
                    del self.g[kind]
                continue
            if opname in ("copy", "pickle"):
                light = snapshot(g2, with_schema=False)   # the schema of the new object is observed at the end of the history only
                d = snap_diff({k: before[k] for k in light}, light, order=False)
                if d:
                    self.fail(f"{kind} {opname}", f"the {opname} differs from the original: {d}")
                if g2 is g:
                    self.fail(f"{kind} {opname}", "same object returned")
                self.watch.append((f"original of the {opname} ({kind})", g, before))
                self.g[kind] = g2
            elif opname in ("queries", "validate"):
                d = snap_diff(before, snapshot(g))
                if d:
                    self.fail(f"{kind} read-only", f"a read-only query changed the grammar: {d}")
        if status == "ok":
            self.ref = newref
        if opname == "copy" and not self.prefix:
            self.prefix = "[after copy] "

    # -- after each step ---------------------------------------------------------------------------------------
    def check_state(self, tag):
        """Representation invariants and the reference model (cache-neutral)."""
        ref = self.ref
        states = {}
        for kind, g in self.g.items():
            names = list(g.keys())
            req = set(g.required_names)
            dflt = dict(g.defaults)
            states[kind] = (sorted(names), sorted(req), sorted((k, repr(v)) for k, v in dflt.items()),
                            sorted(ns_pairs(g.to_namespaced)), sorted(ns_pairs(g.from_namespaced)))
            c = f"{kind} invariant"
            if len(set(names)) != len(names) or len(names) != len(g):
                self.fail(c, f"names {names} / len {len(g)}")
            if not req <= set(names):
                self.fail(c, f"required names {sorted(req - set(names))} are not elements")
            if not set(dflt) <= set(names):
                self.fail(c, f"defaults {sorted(set(dflt) - set(names))} are not elements")
            if ns_pairs(g.to_namespaced) != {(n, p) for (p, n) in ns_pairs(g.from_namespaced)}:
                self.fail(c, f"namespace maps not mutually inverse: {dict(g.to_namespaced)} / {dict(g.from_namespaced)}")
            c = f"{kind} reference"
            if set(names) != set(ref.el):
                self.fail(c, f"names {sorted(names)} expected {sorted(ref.el)}")
            for n, (_, q) in ref.el.items():
                if q is not None and (n in req) != q:
                    self.fail(c, f"{n} required={n in req} expected {q}")
            if sorted((k, repr(v)) for k, v in dflt.items()) != sorted((k, repr(v)) for k, v in ref.dflt.items()):
                self.fail(c, f"defaults {dflt} expected {ref.dflt}")
        if not self.agree_ns:
            states = {k: v[:3] for k, v in states.items()}
        if len(states) == 2 and states["simple"] != states["json"]:
            self.fail("agree", f"simple {states['simple']} vs json {states['json']}")
        bad = bool(self.fails)
        self.flush(tag, "invariants, reference model, simple/json agreement")
        if bad:
            raise Stop  # what follows would only repeat the mismatch

    def expected(self, kinds_of):
        """Reference verdict for a data dictionary given as name -> kind: True / False / None (either)."""
        any_none = False
        for n, (tags, req) in self.ref.el.items():
            if n not in kinds_of:
                if req is True:
                    return False
                if req is None:
                    any_none = True
            else:
                a = allowed(tags, kinds_of[n])
                if a is False:
                    return False
                if a is None:
                    any_none = True
        return None if any_none else True

    def probes(self, light=False):
        """Name -> kind dictionaries: the canonical accepted one, one deviation per (name, kind), every missing name.

        Elements get every kind; the names of the alphabet that are not elements (a stale validator could still know
        them) and the extra name get three kinds.  ``light``: three kinds for everybody (intermediate steps).
        """
        # every possibly required name is present with a kind accepted for sure by the union of its tags
        base = {n: next(k for k in self.kinds if allowed(tags, k) is True) for n, (tags, req) in self.ref.el.items() if req is not False}
        out = [dict(base)]
        few = ["int", "str", "farr"]
        for n in NAMES + ["c", EXTRA]:
            for k in (self.kinds if (n in self.ref.el and not light) else few):
                d = dict(base)
                d[n] = k
                out.append(d)
        for n in base:
            d = dict(base)
            del d[n]
            out.append(d)
        return out

    def check_validation(self, tag, probes=None, use_required_names=True, full=True):
        """Acceptance: both grammars against the reference; ``full``: JSON grammar against jsonschema, cached schema is current."""
        probes = self.probes(light=not full) if probes is None else probes
        verdict = {}
        comps = []
        ref_val = None
        if full and "json" in self.g:
            jg = self.g["json"]
            schema = jg.schema
            fresh = json.loads(jg.to_json())
            c = "json schema"
            comps.append(c)
            if _canon(strip_schema(schema)) != _canon(strip_schema(fresh)):
                self.fail(c, f"the schema view {strip_schema(schema)} is not the current definition {strip_schema(fresh)}")
            req = set(jg.required_names)
            for view_name, view in (("schema", schema), ("to_json", fresh)):
                if set(view.get("required", [])) != req:
                    c2 = f"json {view_name} required"
                    comps.append(c2)
                    self.fail(c2, f"the {view_name} view lists the required names {sorted(view.get('required', []))} but required_names is {sorted(req)}")
            if set(schema.get("properties", {})) != set(self.ref.el):
                self.fail(c, f"properties {sorted(schema.get('properties', {}))} expected {sorted(self.ref.el)}")
            ref_val = reference_validator(schema, set(jg.required_names) if use_required_names else None)
            comps.append("json vs jsonschema")
        expected = [self.expected(p) for p in probes]
        for kind, g in self.g.items():
            c = f"{kind} validate"
            comps.append(c)
            for i, p in enumerate(probes):
                data = {n: value(k) for n, k in p.items()}
                got = accepts(g, data)
                verdict[(kind, i)] = got
                self.n_accept += got
                exp = expected[i]
                if kind == "simple" and self.simple_free & set(p):
                    verdict[(kind, i)] = exp = None
                if exp is not None and got != exp:
                    self.fail(c, f"data {fmt(p)} accepted={got} but the definition {self.describe()} says {exp}")
                if ref_val is not None and kind == "json" and "complex" not in p.values():
                    rv = ref_val.is_valid(render(data))
                    if rv != got:
                        self.fail("json vs jsonschema", f"data {fmt(p)}: validate says {got}, jsonschema on grammar.schema says {rv}")
        if len(self.g) == 2:
            comps.append("simple vs json")
            for i, p in enumerate(probes):
                if expected[i] is None or verdict[("simple", i)] is None:
                    continue  # a kind one of the two cannot express / the documentation is silent about
                if verdict[("simple", i)] != verdict[("json", i)]:
                    self.fail("simple vs json", f"data {fmt(p)}: simple={verdict[('simple', i)]} json={verdict[('json', i)]}")
        self.flush(tag, "acceptance: " + ", ".join(comps))

    def describe(self):
        """Compact definition: name:tags followed by ! (required), ? (optional) or ~ (either)."""
        return "{" + ", ".join(f"{n}:{'|'.join(sorted(t))}{'!' if q else ('?' if q is False else '~')}" for n, (t, q) in self.ref.el.items()) + "}"

    def check_watched(self, tag):
        for what, g, snap in self.watch:
            d = snap_diff(snap, snapshot(g))
            c = "original changed" if what.startswith("original") else "operand changed"
            if d:
                self.fail(f"{c}: {', '.join(d)}", what)
        self.flush(tag, "operands and originals untouched")


def _run_ops(env, ops, tagprefix, observe):
    for i, op in enumerate(ops):
        tag = f"{tagprefix}{i}"
        env.apply(op, tag)
        env.check_state(tag)
        if observe == "validate":
            env.check_validation(tag, full=False)
        elif observe == "schema" and "json" in env.g:
            env.g["json"].schema  # noqa: B018  populate the schema cache, not the validator


def h_histories(ctx, cfg):
    kinds = KINDS_T if cfg.get("kinds") == "T" else KINDS_Q
    K, observe = cfg["K"], cfg["observe"]
    ops = choose_ops(ctx, _recipe_ref(cfg["recipe"]), K, cfg["level"], first=cfg.get("first"))
    env = Env(ctx, cfg, kinds)
    try:
        _run_ops(env, RECIPES[cfg["recipe"]], "r", "none")
        for k, op in enumerate(ops):
            _run_ops(env, [op], f"s{k}.", observe if k < K - 1 else "none")
        env.check_validation("end")
        env.check_watched("end")
    except Stop:
        pass
    ctx.observe("summary", [float(len(env.ref.el)), float(env.n_accept)])


def pure_others(oid):
    """(None, None, reference of the operand grammar ``oid``) without building any grammar."""
    r = Ref()
    for op in OTHERS[oid]:
        r = ref_apply(r, op, None)[1]
    return None, None, r


def _recipe_ref(recipe):
    ref = Ref()
    for op in RECIPES[recipe]:
        st, new = ref_apply(ref, op, pure_others)
        if st == "ok":
            ref = new
    return ref


def first_menu_size(recipe, level, exclude=()):
    return len([op for op in menu(_recipe_ref(recipe), level, 0) if op[0] not in exclude])


def choose_ops(ctx, ref, K, level, first=None, exclude=(), optional=False):
    """The operations of a history, chosen by the solver BEFORE anything is executed (the menus only depend on the
    reference state, which is a pure function of the operations chosen so far)."""
    ops = []
    for k in range(K):
        m = [op for op in menu(ref, level, k) if op[0] not in exclude]
        if k == 0 and first is not None:
            idx = first
        else:
            idx = pick(ctx, f"op{k}_", len(m) + (1 if optional else 0))
        if idx == len(m):
            break
        ops.append(m[idx])
        st, new = ref_apply(ref, m[idx], pure_others)
        if st == "ok":
            ref = new
    return ops


# ------------------------------------------------------------------------------------------------------------------
# data: a definition fixed by the configuration against a solver-chosen dictionary
# ------------------------------------------------------------------------------------------------------------------
def h_data(ctx, cfg):
    kinds = KINDS_T if cfg.get("kinds") == "T" else KINDS_Q
    optional = [n for n in ("a", "ns:a") if not ctx.flag(f"required[{n}]")]
    p = {}
    for n, ks in (("a", kinds), ("ns:a", kinds if cfg.get("kinds") == "T" else ["int", "str", "farr", "none"])):
        if ctx.flag(f"present[{n}]"):
            p[n] = ks[pick(ctx, f"kind[{n}]", len(ks))]
    if ctx.flag(f"present[{EXTRA}]"):
        p[EXTRA] = "farr"
    env = Env(ctx, cfg, kinds)
    ops = []
    for n, tag in (("a", cfg["ta"]), ("ns:a", cfg["tb"])):
        ops.append(("names", (n,), False) if tag == "arr_num" else ("types", n, tag, False))
    try:
        _run_ops(env, ops, "r", "none")
        # the grammar has validated something before each edit (a stale validator would show)
        for n in optional:
            _run_ops(env, [("validate",), ("req_discard", n)], f"opt[{n}]", "none")
        env.check_validation("data", probes=[p])
    except Stop:
        pass
    ctx.observe("summary", [float(env.n_accept)])


# ------------------------------------------------------------------------------------------------------------------
# schema_view: the JSON views (schema, to_json) list the required names; validate leaves them alone
# ------------------------------------------------------------------------------------------------------------------
def h_schema_view(ctx, cfg):
    ops = choose_ops(ctx, _recipe_ref(cfg["recipe"]), cfg["K"], "narrow", first=cfg.get("first"), exclude=("copy", "queries"))
    env = Env(ctx, cfg, KINDS_Q, use_simple=False)
    try:
        _run_ops(env, RECIPES[cfg["recipe"]], "r", "none")
        _run_ops(env, ops, "s", "none")
        jg = env.g["json"]
        required = set(jg.required_names)
        sj = json.loads(jg.to_json())
        ctx.check("to_json lists the required names", ctx.true() if set(sj.get("required", [])) == required else ctx.false())
        s0 = _copy.deepcopy(dict(jg.schema))
        ctx.check("schema lists the required names", ctx.true() if set(s0.get("required", [])) == required else ctx.false())
        ctx.check("schema and to_json agree", ctx.true() if _canon(s0) == _canon(sj) else ctx.false())
        # validate agrees with jsonschema applied to the schema view as it is (presence patterns of canonical values)
        probes = env.probes()
        rv = reference_validator(s0, None)
        bad = [p for p in probes if "complex" not in p.values()
               and rv.is_valid(render({n: value(k) for n, k in p.items()})) != accepts(jg, {n: value(k) for n, k in p.items()})]
        ctx.check("validate agrees with jsonschema on grammar.schema", ctx.true() if not bad else ctx.false())
        s1 = _copy.deepcopy(dict(jg.schema))
        ctx.check("schema unchanged by validate", ctx.true() if s1 == s0 else ctx.false())
        ctx.check("to_json unchanged by validate", ctx.true() if json.loads(jg.to_json()) == sj else ctx.false())
    except Stop:
        pass
    ctx.observe("summary", [float(len(env.ref.el))])


# ------------------------------------------------------------------------------------------------------------------
# from_schema: update_from_schema on an edited grammar
# ------------------------------------------------------------------------------------------------------------------
SCHEMAS = {
    "S_int_req": ({"$schema": "http://json-schema.org/draft-04/schema", "type": "object", "properties": {"c": {"type": "integer"}}, "required": ["c"]},
                  [("c", "int", True)]),
    "S_two": ({"$schema": "http://json-schema.org/draft-04/schema", "type": "object",
               "properties": {"a": {"type": "string"}, "c": {"type": "array", "items": {"type": "number"}}}, "required": ["a"]},
              [("a", "str", True), ("c", "arr_num", False)]),
    "S_opt": ({"$schema": "http://json-schema.org/draft-04/schema", "type": "object", "properties": {"c": {"type": "boolean"}}},
              [("c", "bool", False)]),
}


def h_from_schema(ctx, cfg):
    ops = choose_ops(ctx, _recipe_ref(cfg["recipe"]), 1, "narrow", exclude=("copy",), optional=True)
    env = Env(ctx, cfg, KINDS_Q, use_simple=False)
    try:
        _run_ops(env, RECIPES[cfg["recipe"]], "r", "none")
        _run_ops(env, ops, "s", cfg["observe"])
        schema, elements = SCHEMAS[cfg["schema"]]
        merge = cfg["merge"]
        jg = env.g["json"]
        try:
            jg.update_from_schema(_copy.deepcopy(schema), merge)
        except Exception as e:  # noqa: BLE001
            ctx.check(f"update_from_schema raised {type(e).__name__}: {str(e)[:100]}", ctx.false())
            raise Stop from None
        for n, tag, req in elements:
            env.ref.define(n, tag, merge, required=req)
        lost = sorted(n for n, _, req in elements if req and n not in jg.required_names)
        ctx.check("update_from_schema: the required names of the schema are required", ctx.false() if lost else ctx.true())
        if lost:
            raise Stop
        env.check_state("schema")
        env.check_validation("schema")
    except Stop:
        pass
    ctx.observe("summary", [float(len(env.ref.el))])


# ------------------------------------------------------------------------------------------------------------------
# convert: JSON grammar -> simple grammar
# ------------------------------------------------------------------------------------------------------------------
def h_convert(ctx, cfg):
    from gemseo.core.grammars.simple_grammar import SimpleGrammar

    ops = choose_ops(ctx, _recipe_ref(cfg["recipe"]), 1, "narrow", exclude=("copy",), optional=True)
    env = Env(ctx, cfg, KINDS_Q, use_simple=False)
    try:
        _run_ops(env, RECIPES[cfg["recipe"]], "r", "none")
        _run_ops(env, ops, "s", "none")
        jg = env.g["json"]
        before = snapshot(jg)
        how = cfg["how"]
        try:
            if how == "to_simple_grammar":
                sg = jg.to_simple_grammar()
            else:
                sg = SimpleGrammar("g")
                sg.update(jg)
        except Exception as e:  # noqa: BLE001
            ctx.check(f"{how} raised {type(e).__name__}: {str(e)[:60]}", ctx.false())
            raise Stop from None
        ctx.check("conversion is read-only", ctx.true() if not snap_diff(before, snapshot(jg)) else ctx.false())
        ctx.check("converted grammar is a SimpleGrammar", ctx.true() if isinstance(sg, SimpleGrammar) else ctx.false())
        env.g["simple"] = sg
        env.agree_ns = False  # whether a conversion carries the namespace maps is not documented
        # documented: a definition that is not a unique Python type is converted to None (anything is accepted)
        env.simple_free = {n for n, (tags, _) in env.ref.el.items() if len(tags) > 1 or "any" in tags}
        env.check_state("converted")
        env.check_validation("converted")
    except Stop:
        pass
    ctx.observe("summary", [float(len(env.ref.el))])


HARNESSES = {"histories": h_histories, "data": h_data, "schema_view": h_schema_view, "from_schema": h_from_schema, "convert": h_convert}


# ------------------------------------------------------------------------------------------------------------------
# pickle_views: an unpickled / copied JSON grammar edited WITHOUT any intermediate observation (every call of to_json /
# schema / validate re-synchronizes internal caches and would hide a stale state): views agree with required_names at the end
# ------------------------------------------------------------------------------------------------------------------
def h_pickle_views(ctx, cfg):
    from gemseo.core.grammars.json_grammar import JSONGrammar

    g = JSONGrammar("g")
    build = cfg["build"]
    if build == "names":
        g.update_from_names(["a", "b"])
    elif build == "types":
        g.update_from_types({"a": int, "b": float})
    else:
        g.update_from_names(["a"])
        g.update_from_types({"b": str})
        g.required_names.discard("b")
    if cfg.get("warm"):
        g.validate({"a": np.array([1.0]) if build != "types" else 1, "b": np.array([1.0]) if build == "names" else (1.5 if build == "types" else "s")},
                   raise_exception=False)
    how = cfg["how"]
    h = pickle.loads(pickle.dumps(g)) if how == "pickle" else (_copy.copy(g) if how == "copy" else g)
    edits = ["none", "discard a", "discard b", "add b", "discard a then add a", "rename a->c", "delete a"]
    edit = edits[ctx.choice("edit", len(edits))]
    if edit == "discard a":
        h.required_names.discard("a")
    elif edit == "discard b":
        h.required_names.discard("b")
    elif edit == "add b":
        h.required_names.add("b")
    elif edit == "discard a then add a":
        h.required_names.discard("a")
        h.required_names.add("a")
    elif edit == "rename a->c":
        h.rename_element("a", "c")
    elif edit == "delete a":
        del h["a"]
    order = cfg["order"]
    views = {}
    for name in order:
        views[name] = json.loads(h.to_json()) if name == "to_json" else _copy.deepcopy(dict(h.schema))
    req = set(h.required_names)
    for name, view in views.items():
        ctx.check(f"{how}, {edit}: {name} lists exactly the required names", _b(ctx, set(view.get("required", [])) == req))
        ctx.check(f"{how}, {edit}: {name} lists exactly the elements", _b(ctx, set(view.get("properties", {})) == set(h.keys())))
    # and validation follows required_names
    for missing in sorted(h.keys()):
        data = {n: (1 if build == "types" and n in ("a", "c") else 1.5 if build == "types" else np.array([1.0]) if (build == "names" or n in ("a", "c")) else "s")
                for n in h.keys() if n != missing}
        ok = accepts(h, data)
        ctx.check(f"{how}, {edit}: data without {missing} accepted iff {missing} is not required", _b(ctx, ok == (missing not in req)))
    ctx.observe("n_required", [float(len(req))])


def _b(ctx, v):
    return ctx.true() if v else ctx.false()


# ------------------------------------------------------------------------------------------------------------------
# configurations
# ------------------------------------------------------------------------------------------------------------------
def configs(tier):
    out = []
    quick = tier == "quick"
    kinds = "Q" if quick else "T"
    recipes = list(RECIPES)
    all_obs = ("validate", "none", "schema")
    if quick:
        plan = [(recipes, "wide", 2, lambda rec: ("validate", "none") if rec == "R2" else ("validate",)),
                (["R0", "R1", "R2"], "narrow", 3, lambda rec: ("validate",))]
    else:
        plan = [(recipes, "wide", 2, lambda rec: all_obs), (["R1"], "wide", 3, lambda rec: ("validate",)),
                (recipes, "narrow", 3, lambda rec: all_obs), (["R2"], "narrow", 4, lambda rec: ("validate",))]
    for recs, level, K, observes in plan:
        for rec in recs:
            for observe in observes(rec):
                for first in range(first_menu_size(rec, level)):
                    out.append(("histories", dict(recipe=rec, level=level, K=K, first=first, observe=observe, kinds=kinds)))
    # data
    tags = ["int", "float", "str", "bool", "ndarray", "arr_num", "any"]
    for ta in tags:
        for tb in (tags if not quick else ["int", "arr_num", "any"]):
            out.append(("data", dict(ta=ta, tb=tb, observe="validate", kinds=kinds)))
    # JSON views
    for rec in recipes:
        for first in range(first_menu_size(rec, "narrow", exclude=("copy", "queries"))):
            out.append(("schema_view", dict(recipe=rec, K=1 if quick else 2, first=first)))
    for rec in recipes:
        for sch in SCHEMAS:
            for merge in (False, True):
                out.append(("from_schema", dict(recipe=rec, schema=sch, merge=merge, observe="validate")))
    for build in ("names", "types", "mixed"):
        for how in ("pickle", "copy", "same"):
            for warm in (False, True):
                for order in (["to_json"], ["schema"], ["schema", "to_json"], ["to_json", "schema"]):
                    out.append(("pickle_views", dict(build=build, how=how, warm=warm, order=order)))
    for rec in recipes:
        for how in ("to_simple_grammar", "SimpleGrammar.update"):
            out.append(("convert", dict(recipe=rec, how=how)))
    return out


EXPLORER_OPTS = {"quick": dict(max_paths=20000, max_decisions=200), "thorough": dict(max_paths=400000, max_decisions=300, wall_budget_s=3000.0)}


def crosshair_targets(tier):
    f = str(Path(__file__).resolve().parent.parent / "crosshair" / "C15_namespaces.py")
    names = ["_remove_prefix_single", "_remove_prefix_without_namespace", "_remove_prefix_elementwise", "_remove_prefix_never_contains_separator",
             "_split_join_round_trip", "_split_without_namespace", "_split_then_join", "_split_nested_namespace",
             "_update_namespaces_new_key", "_update_namespaces_same_key", "_update_namespaces_lists"]
    return [dict(file=f, function=n, timeout=30 if tier == "quick" else 60) for n in names]


HARNESSES["pickle_views"] = h_pickle_views
