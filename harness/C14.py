"""C14 - DOE samples honour bounds, types, sample count and seed (library-independent pipeline; the per-library wrapper glue,
the count arithmetic and the seed handling are in harness/C14_wrap.py)."""
from __future__ import annotations

import numpy as np

from fractions import Fraction

from harness.C03 import _stub_doe_library
from harness.common import _plain, _py, build_space, check_array, check_shape, elems, rint

META = dict(
    bounds=dict(
        quick="(pipeline) stub sampler returning S<=3 symbolic rows of [0,1]^d (d<=3) pushed through the real compute_doe / _pre_run pipeline; float variables with symbolic "
              "bounds l<u, or concrete bounds when an integer variable is present; integer bounds [0,5], [-3,4], [2,2]; DiagonalDOE n<=5, OATDOE/MorrisDOE d<=2, CustomDOE S=2.  "
              "(wrapper glue, harness/C14_wrap.py) every third-party sampler replaced by a recording contract stub: OT_AXIAL/OT_FACTORIAL/OT_COMPOSITE with SYMBOLIC centers in "
              "[1/64,63/64] and levels in [1/64,1] (documented: ]0,1[ and ]0,1]; d<=2, 1-2 levels; vector / single / scalar centers; stub = the documented point structure, and for d=1 with one level an ARBITRARY "
              "matrix in the documented range), n_samples chosen by the solver in 1..count(2 levels)+1 (exact float64 count arithmetic), compute_doe on symbolic bounds and "
              "on a float+integer space; OT_FULLFACT / PYDOE_FULLFACT: levels per direction chosen by the solver in 1..4 (d=1), 1..3 (d=2), n_samples chosen in 1..6 (d=1), "
              "1..10 (d=2), 1..9 (d=3), the level kernel _compute_fullfact_levels for a SYMBOLIC integer n_samples < 9^d (d<=3) under the float contract of n ** (1/d), "
              "compute_doe on 4 layouts; PYDOE_FF2N/PBDESIGN/BBDESIGN/LHS, SciPy Sobol/Halton/LHS/PoissonDisk/MC, OT_MONTE_CARLO/RANDOM/LHS/LHSC/OPT_LHS/SOBOL/HALTON/"
              "REVERSE_HALTON/HASELGROVE/FAURE: n_samples 1-4, d<=3, the sampler's matrix SYMBOLIC in its documented range, histories of 1-3 calls whose seeds "
              "(None / 7 / 11) are chosen by the solver, default and user-set initial seed; MorrisDOE n_samples chosen in 0..9 (d<=3), DiagonalDOE n_samples in 2..8",
        thorough="same with S<=4 and more layouts; stratified designs d<=3, 1-3 levels, all center forms, range contract also with 2 levels, n_samples up to count(3 levels)+1; "
                 "full factorial d<=4 (kernel: n < 13^d for d<=2, 11^d for d<=4), levels 1..4 for d=2, 1..3 for d=3, n_samples up to 26 (d=2) / 28 (d=3); Morris/Diagonal n_samples up to 12/16; "
                 "a few 3-call histories and 3-sample matrices more",
    ),
    outside=["the samplers themselves (SciPy qmc, OpenTURNS, pyDOE3, numpy RandomState: compiled / RNG code): that they honour the documented contracts used by the stubs (shape = "
             "requested count x dimension, entries in the documented range, the documented point structure of Axial/Factorial/Composite/Box/fullfact), their space-filling "
             "quality and their determinism for a given seed are ASSUMPTIONS of this check; they are validated only on the concrete runs of the differential self-test and of "
             "the counterexample replays (obligations 'environment contract: ...')",
             "scipy PoissonDisk may return fewer than n_samples points for a large radius (documented by SciPy): only the forwarding of n_samples is checked",
             "PYDOE_CCDESIGN (leaves the unit cube by design with its default alpha; not in the quantifier's list), OT_SOBOL_INDICES (not in the list)",
             "MorrisDOE with doe_algo_name='CustomDOE' and n_samples>0: the given initial points win and n_samples is ignored (9 samples for 3 requested on the unchanged tree); the "
             "property is silent on two conflicting user-supplied counts: not asserted",
             "whether calls WITH an explicit seed advance the default seed (Seeder docstring: every call; property anchor: 'unless a seed is given'): both readings accepted",
             "which uniform draw of OT_MONTE_CARLO lands in which cell of the matrix (any arrangement is a Monte Carlo sample): only 'every entry is a draw and every draw is used'",
             "the value given to a direction with a single level by the full-factorial designs (0.5 on the unchanged tree): only that it lies in [0,1]",
             "float64 rounding: the sliver ]1 - 2^-40, 1[ of LHS points for OT_LHSC (division by the float value of 1.0 / n), n ** (1/d) beyond n = 10^4",
             "stratified designs: d > 3, more than 3 levels, n_samples beyond the smallest 3 designs; the ValueError branches for malformed centers / levels",
             "CustomDOE file parsing"],
    stubs=["oat_doe.array -> object-dtype array (oat harness)", "diagonal_doe.hstack -> object-dtype array of the same floats (diagonal harness)", "unit sampler -> symbolic matrix in [0,1]^{S x d}", "float bounds injected into Variable.__dict__",
           "OTAxialDOE/OTFactorialDOE/OTCompositeDOE._ALGO_CLASS (openturns.Axial/Factorial/Composite) -> recorder; generate() returns, for the arguments (center, levels) IT RECEIVED, "
           "the documented structure (the centre, then centre +- level_k along each axis / at each vertex: 1 + 2 n L, 1 + L 2^n, 1 + L (2n + 2^n) points) or, 'range' contract, "
           "an arbitrary matrix of that shape with |entry - center_j| <= some level; concretely the real class is called and must return exactly that structure",
           "ot_full_factorial_doe.Box -> the regular grid prod(levels + 2) x n of [0,1] including the bounds, first direction fastest; pydoe_full_factorial_doe.fullfact -> coded "
           "levels 0..k-1 of every combination, first factor fastest; concretely the real functions are called and compared with these grids",
           "n_samples ** (1.0 / dimension) in _compute_fullfact_levels (the only float operation of the kernel): n_samples is a harness object around an integer-valued symbolic "
           "real whose power obeys 'int(n ** (1/d)) == r, or r - 1 when n == r^d' (r the exact integer root); validated exhaustively for n <= 10^4, d <= 4 in concrete mode",
           "PyDOELibrary.__NAMES_TO_FUNCTIONS[bbdesign|ff2n|pbdesign] -> recorder returning a symbolic matrix of coded levels in [-1,1]; [lhs] -> recorder returning a symbolic "
           "samples x n matrix in [0,1]; pydoe.RandomState -> recording subclass of numpy's RandomState (both modes)",
           "SciPyDOE.__NAMES_TO_CLASSES[*] (Sobol, Halton, LatinHypercube, PoissonDisk, _MonteCarlo) -> recorder engine; random(n) returns a symbolic n x d matrix in [0,1]; "
           "concretely a recording subclass of the real engine",
           "openturns.RandomGenerator.SetSeed -> recorder (calls the real one); BaseOTDOE._STANDARD_UNIFORM_DISTRIBUTION.getSample(k) -> symbolic k x 1 matrix in [0, 1 - 2^-40]; "
           "LHSExperiment / SimulatedAnnealingLHS / MonteCarloLHS -> recorders, generate() returns a symbolic size x dimension matrix in [0, 1 - 2^-40]; the five low-discrepancy "
           "_ALGO_CLASS -> recorders tagged with the real class, generate(n) returns a symbolic n x d matrix in [0,1]; concretely pass-through to the real objects",
           "module-level numpy.array / numpy.full of the OpenTURNS algorithm modules -> value-preserving object-dtype storage (symbolic mode only)",
           "MorrisDOE counts: inner PYDOE_LHS through the lhs recorder with initial points in [0, 1/2]^d (no fork on the OAT directions, which the oat harness covers)"],
    assumptions=["unit samples lie in [0,1]", "lb <= ub, integer bounds integral",
                 "the third-party samplers honour the contracts listed under stubs (documented by OpenTURNS / SciPy / pyDOE3) and are deterministic for a given seed",
                 "int(a / b) of the stratified count arithmetic is evaluated in real float64 on concrete solver-chosen n (no abstraction); for the full-factorial kernel the float "
                 "power is abstracted by the contract above"],
)

LAYOUTS = {
    "B": [("x", "float", "B")],
    "BB": [("x", "float", "BB")],
    "B,B": [("x", "float", "B"), ("yy", "float", "B")],
    "BE": [("x", "float", "BE")],
    "Ci": [("x", "float", "C"), ("k", "integer", [(0, 5)])],
    "iC": [("k", "integer", [(-3, 4)]), ("x", "float", "C")],
    "i": [("k", "integer", [(0, 5)])],
    "ii": [("k", "integer", [(0, 5), (2, 2)])],
    "iDi": [("k", "integer", [(-3, 4)]), ("x", "float", "D"), ("j", "integer", [(0, 1)])],
}


def _unit(ctx, S, d):
    rows = []
    for s in range(S):
        r = [ctx.real(f"u{s}_{j}") for j in range(d)]
        for v in r:
            ctx.assume(ctx.and_(ctx.le(0.0, v), ctx.le(v, 1.0)))
        rows.append(r)
    return rows


def _install_ds_dtype_stub(ctx):
    """An object array holding symbols must count as float64 in DesignSpace.__get_common_dtype."""


def h_compute_doe(ctx, cfg):
    ds, info = build_space(ctx, LAYOUTS[cfg["layout"]])
    d, S = info.n, cfg["S"]
    ds.enable_integer_variables_normalization = cfg["int_norm_initial"]
    rows = _unit(ctx, S, d)
    given = []

    def sampler(design_space):
        m = ctx.array(rows)
        given.append(m)
        return m

    lib = _stub_doe_library(sampler)
    if cfg.get("unit_sampling"):
        out = lib.compute_doe(ds, unit_sampling=True)
        check_array(ctx, "unit samples returned as generated", out, rows)
        return
    samples = lib.compute_doe(ds)
    ctx.observe("samples", np.ravel(samples))
    if not check_shape(ctx, "samples", samples, (S, d)):
        return
    sm = _plain(samples) if isinstance(samples, np.ndarray) else np.asarray(samples, dtype=object)
    for s in range(S):
        for j in range(d):
            v = _py(sm[s, j])
            img = info.lb[j] + rows[s][j] * (info.ub[j] - info.lb[j])
            ctx.check(f"sample[{s},{j}] >= lower bound", ctx.le(info.lb[j], v))
            ctx.check(f"sample[{s},{j}] <= upper bound", ctx.le(v, info.ub[j]))
            if info.is_int[j]:
                # the rounding rule at ties is not part of the property: nearest integer, either neighbour at a tie
                ctx.check(f"sample[{s},{j}] is an integer", ctx.is_int(v))
                ctx.check(f"sample[{s},{j}] is the rounded design-space image of the unit sample",
                          ctx.and_(ctx.le(v - img, 0.5), ctx.le(img - v, 0.5)))
            else:
                ctx.check(f"sample[{s},{j}] is the design-space image of the unit sample", ctx.eq(v, img))
    ctx.check("integer normalization switch restored",
              ctx.true() if ds.enable_integer_variables_normalization == cfg["int_norm_initial"] else ctx.false())
    check_array(ctx, "unit samples untouched", given[0], rows)


def h_execute(ctx, cfg):
    """Through execute(): library.samples / unit_samples, and the switch is restored before the evaluations."""
    from gemseo.algos.optimization_problem import OptimizationProblem
    from gemseo.core.mdo_functions.mdo_function import MDOFunction
    from harness.common import db_items, install_hash_stub, install_np_array_stub

    install_hash_stub(ctx)
    install_np_array_stub(ctx)
    ds, info = build_space(ctx, LAYOUTS[cfg["layout"]])
    d, S = info.n, cfg["S"]
    rows = _unit(ctx, S, d)
    F = ctx.uf("f", d)
    seen_switch = []

    def f(x):
        seen_switch.append(ds.enable_integer_variables_normalization)
        return ctx.array([F(*elems(x))])

    problem = OptimizationProblem(ds)
    problem.objective = MDOFunction(f, "f")
    lib = _stub_doe_library(lambda design_space: ctx.array(rows))
    lib.execute(problem, enable_progress_bar=False, log_problem=False)
    if check_shape(ctx, "library.samples", lib.samples, (S, d)):
        sm = _plain(lib.samples)
        for s_, r in enumerate(rows):
            for j in range(d):
                img = info.lb[j] + r[j] * (info.ub[j] - info.lb[j])
                v = _py(sm[s_, j])
                if info.is_int[j]:
                    ctx.check(f"library.samples[{s_},{j}] integer", ctx.is_int(v))
                    ctx.check(f"library.samples[{s_},{j}] rounded image", ctx.and_(ctx.le(v - img, 0.5), ctx.le(img - v, 0.5)))
                else:
                    ctx.check(f"library.samples[{s_},{j}] image", ctx.eq(v, img))
    check_array(ctx, "library.unit_samples", lib.unit_samples, rows)
    ctx.check("integer normalization off during the evaluations", ctx.true() if not any(seen_switch) else ctx.false())
    ctx.observe("samples", np.ravel(lib.samples))


def h_custom(ctx, cfg):
    """CustomDOE returns exactly the given samples, in order, with or without a design space (the samples are physical points)."""
    from gemseo.algos.doe.custom_doe.custom_doe import CustomDOE

    ds, info = build_space(ctx, LAYOUTS[cfg["layout"]])
    d, S = info.n, cfg["S"]
    rows = []
    for s_ in range(S):
        r = [ctx.real(f"s{s_}_{j}") for j in range(d)]
        for j, v in enumerate(r):
            ctx.assume(ctx.and_(ctx.le(info.lb[j], v), ctx.le(v, info.ub[j])))
            if info.is_int[j]:
                ctx.assume(ctx.is_int(v))
        rows.append(r)
    given = ctx.array(rows)
    out = CustomDOE().compute_doe(ds if cfg["with_space"] else d, samples=given)
    ctx.observe("samples", np.ravel(out))
    check_array(ctx, "CustomDOE returns the given samples in order", out, rows)
    check_array(ctx, "given samples untouched", given, rows)


def h_diagonal(ctx, cfg):
    """DiagonalDOE (gemseo's own pure-Python sampler): exactly n_samples points on the diagonal of the (symbolic) bounds, from the
    lower to the upper corner (or reversed for the listed variables), integer components integral and within bounds."""
    from gemseo.algos.doe.diagonal_doe.diagonal_doe import DiagonalDOE

    if ctx.symbolic:
        import gemseo.algos.doe.diagonal_doe.diagonal_doe as ddm
        from symgem.core import SymArray

        ctx.patch(ddm, "hstack", lambda arrays: SymArray(np.hstack(arrays)))   # float64 storage -> exact object storage
    ds, info = build_space(ctx, LAYOUTS[cfg["layout"]])
    d, n = info.n, cfg["n_samples"]
    reverse = list(cfg.get("reverse", []))
    out = DiagonalDOE().compute_doe(ds, n_samples=n, reverse=reverse)
    ctx.observe("samples", np.ravel(out))
    if not check_shape(ctx, "exactly n_samples samples", out, (n, d)):
        return
    sm = _plain(out) if isinstance(out, np.ndarray) else np.asarray(out, dtype=object)
    names = [nm for nm, size in zip(info.names, info.sizes) for _ in range(size)]
    for j in range(d):
        rev = names[j] in reverse or str(j) in reverse
        for k in range(n):
            t = Fraction(k, n - 1) if n > 1 else Fraction(0)
            if rev:
                t = 1 - t
            tt = float(t) if not ctx.symbolic else _exact(t)
            img = info.lb[j] + tt * (info.ub[j] - info.lb[j])
            v = _py(sm[k, j])
            ctx.check(f"sample[{k},{j}] within the bounds", ctx.and_(ctx.le(info.lb[j], v), ctx.le(v, info.ub[j])))
            if info.is_int[j]:
                ctx.check(f"sample[{k},{j}] integer", ctx.is_int(v))
                ctx.check(f"sample[{k},{j}] on the diagonal (rounded)", ctx.and_(ctx.le(v - img, 0.5), ctx.le(img - v, 0.5)))
            elif k in (0, n - 1) or float(t).is_integer() or (t.denominator & (t.denominator - 1)) == 0:
                # linspace is a float64 computation: only dyadic abscissae are exact
                ctx.check(f"sample[{k},{j}] on the diagonal", ctx.eq(v, img))


def _exact(fr):
    from symgem.core import SymReal, _ratval

    return SymReal(_ratval(fr))


def h_oat(ctx, cfg):
    """OATDOE / MorrisDOE (pure Python): d+1 points per initial point, consecutive points differ by +-step*(u-l) in one component,
    every point inside the bounds (for a relative step <= 1/2: a larger step cannot always be accommodated; the configuration
    with step 0.6 exhibits the recorded finding)."""
    from gemseo.algos.doe.factory import DOELibraryFactory

    if ctx.symbolic:
        import gemseo.algos.doe.oat_doe.oat_doe as oat
        from symgem.core import as_symarray

        ctx.patch(oat, "array", lambda pts, *a, **k: as_symarray(pts))   # array(list of arrays): exact object storage
    ds, info = build_space(ctx, LAYOUTS[cfg["layout"]])
    d = info.n
    step = cfg["step"]
    r = cfg.get("r", 1)
    inits = []
    for q in range(r):
        p0 = [ctx.real(f"x{q}_{j}") for j in range(d)]
        for v in p0:
            ctx.assume(ctx.and_(ctx.le(0.0, v), ctx.le(v, 1.0)))
        inits.append(p0)
    if cfg["algo"] == "OATDOE":
        out = DOELibraryFactory().create("OATDOE").compute_doe(ds, step=step, initial_point=ctx.array(inits[0]))
    else:
        out = DOELibraryFactory().create("MorrisDOE").compute_doe(ds, step=step, doe_algo_name="CustomDOE",
                                                                   doe_algo_settings={"samples": ctx.array(inits)})
    ctx.observe("samples", np.ravel(out))
    if not check_shape(ctx, "r*(d+1) samples", out, (r * (d + 1), d)):
        return
    sm = _plain(out) if isinstance(out, np.ndarray) else np.asarray(out, dtype=object)
    for q in range(r):
        base = q * (d + 1)
        for j in range(d):
            ctx.check(f"replicate {q}: first point is the image of the initial point [{j}]",
                      ctx.eq(_py(sm[base, j]), info.lb[j] + inits[q][j] * (info.ub[j] - info.lb[j])))
        for k in range(d + 1):
            for j in range(d):
                v = _py(sm[base + k, j])
                ctx.check(f"replicate {q}: sample[{k},{j}] within the bounds", ctx.and_(ctx.le(info.lb[j], v), ctx.le(v, info.ub[j])))
                if k > 0:
                    prev = _py(sm[base + k - 1, j])
                    if j == k - 1:
                        delta = step * (info.ub[j] - info.lb[j])
                        ctx.check(f"replicate {q}: sample {k} moves component {j} by +-step*(u-l)",
                                  ctx.or_(ctx.eq(v - prev, delta), ctx.eq(prev - v, delta)))
                    else:
                        ctx.check(f"replicate {q}: sample {k} keeps component {j}", ctx.eq(v, prev))


def configs(tier):
    out = []
    quick = tier == "quick"
    for lay in LAYOUTS:
        for S in ((1, 2) if quick else (1, 2, 3)):
            for init in (False, True):
                if quick and S == 2 and lay in ("iDi", "ii") and init:
                    continue
                out.append(("compute_doe", dict(layout=lay, S=S, int_norm_initial=init)))
        out.append(("compute_doe", dict(layout=lay, S=2, int_norm_initial=False, unit_sampling=True)))
    for lay in ("B", "Ci", "iC", "i"):
        out.append(("execute", dict(layout=lay, S=2)))
    for lay in ("B", "B,B", "Ci", "iC"):
        for n_s in (2, 3, 5):
            out.append(("diagonal", dict(layout=lay, n_samples=n_s)))
    for step in (0.25, 0.5, 0.6):
        out.append(("oat", dict(layout="B", algo="OATDOE", step=step)))
        out.append(("oat", dict(layout="BB", algo="OATDOE", step=step)))
    out.append(("oat", dict(layout="B,B", algo="MorrisDOE", step=0.25, r=2)))
    out.append(("oat", dict(layout="B", algo="MorrisDOE", step=0.5, r=2)))
    out.append(("diagonal", dict(layout="B,B", n_samples=3, reverse=["yy"])))
    out.append(("diagonal", dict(layout="BB", n_samples=3, reverse=["1"])))
    for lay in ("B", "BB", "Ci", "iC"):
        for with_space in (True, False):
            out.append(("custom", dict(layout=lay, S=2, with_space=with_space)))
    return out


def crosshair_targets(tier):
    from pathlib import Path

    f = str(Path(__file__).resolve().parent.parent / "crosshair" / "C14_seeder.py")
    return [dict(file=f, function=n, timeout=30 if tier == "quick" else 60)
            for n in ("_explicit_seed_returned", "_default_seed_sequence", "_explicit_then_default", "_two_seeders_agree")]


HARNESSES = {"compute_doe": h_compute_doe, "execute": h_execute, "custom": h_custom, "diagonal": h_diagonal, "oat": h_oat}

# ---- extension: per-library wrapper glue, sample-count arithmetic, seed handling (harness/C14_wrap.py) -------------------------------
from harness import C14_wrap as _wrap  # noqa: E402

HARNESSES.update(_wrap.HARNESSES)
_pipeline_configs = configs


def configs(tier):  # noqa: F811
    return _pipeline_configs(tier) + _wrap.configs(tier)
