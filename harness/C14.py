"""C14 - DOE samples honour bounds, types, sample count and seed (library-independent pipeline)."""
from __future__ import annotations

import numpy as np

from fractions import Fraction

from harness.C03 import _stub_doe_library
from harness.common import _plain, _py, build_space, check_array, check_shape, elems, rint

META = dict(
    bounds=dict(
        quick="stub sampler returning S<=3 symbolic rows of [0,1]^d (d<=3) pushed through the real compute_doe / _pre_run pipeline; float variables with symbolic bounds l<u, or concrete bounds when an integer variable is present; integer bounds [0,5], [-3,4], [2,2]",
        thorough="same with S<=4 and more layouts",
    ),
    outside=["the samplers themselves (SciPy qmc, OpenTURNS, pyDOE, RNG code): that they return points of the unit cube, their sample counts and seed determinism are assumptions, not results",
             "CustomDOE file parsing", "the level computation of full-factorial designs (int(n ** (1/d)) is a float operation)"],
    stubs=["oat_doe.array -> object-dtype array (oat harness)", "diagonal_doe.hstack -> object-dtype array of the same floats (diagonal harness)", "unit sampler -> symbolic matrix in [0,1]^{S x d}", "float bounds injected into Variable.__dict__"],
    assumptions=["unit samples lie in [0,1]", "lb <= ub, integer bounds integral"],
)

LAYOUTS = {
    "B": [("x", "float", "B")],
    "BB": [("x", "float", "BB")],
    "B,B": [("x", "float", "B"), ("yy", "float", "B")],
    "BE": [("x", "float", "BE")],
    "Ci": [("x", "float", "C"), ("k", "integer", [(0, 5)])],
    "iC": [("k", "integer", [(-3, 4)]), ("x", "float", "C")],
    "i": [("k", "integer", [(0, 5)])],
    "ii": [("k", "integer", [(0, 5), (2, 2)])],
    "iDi": [("k", "integer", [(-3, 4)]), ("x", "float", "D"), ("j", "integer", [(0, 1)])],
}


def _unit(ctx, S, d):
    rows = []
    for s in range(S):
        r = [ctx.real(f"u{s}_{j}") for j in range(d)]
        for v in r:
            ctx.assume(ctx.and_(ctx.le(0.0, v), ctx.le(v, 1.0)))
        rows.append(r)
    return rows


def _install_ds_dtype_stub(ctx):
    """An object array holding symbols must count as float64 in DesignSpace.__get_common_dtype."""


def h_compute_doe(ctx, cfg):
    ds, info = build_space(ctx, LAYOUTS[cfg["layout"]])
    d, S = info.n, cfg["S"]
    ds.enable_integer_variables_normalization = cfg["int_norm_initial"]
    rows = _unit(ctx, S, d)
    given = []

    def sampler(design_space):
        m = ctx.array(rows)
        given.append(m)
        return m

    lib = _stub_doe_library(sampler)
    if cfg.get("unit_sampling"):
        out = lib.compute_doe(ds, unit_sampling=True)
        check_array(ctx, "unit samples returned as generated", out, rows)
        return
    samples = lib.compute_doe(ds)
    ctx.observe("samples", np.ravel(samples))
    if not check_shape(ctx, "samples", samples, (S, d)):
        return
    sm = _plain(samples) if isinstance(samples, np.ndarray) else np.asarray(samples, dtype=object)
    for s in range(S):
        for j in range(d):
            v = _py(sm[s, j])
            img = info.lb[j] + rows[s][j] * (info.ub[j] - info.lb[j])
            ctx.check(f"sample[{s},{j}] >= lower bound", ctx.le(info.lb[j], v))
            ctx.check(f"sample[{s},{j}] <= upper bound", ctx.le(v, info.ub[j]))
            if info.is_int[j]:
                # the rounding rule at ties is not part of the property: nearest integer, either neighbour at a tie
                ctx.check(f"sample[{s},{j}] is an integer", ctx.is_int(v))
                ctx.check(f"sample[{s},{j}] is the rounded design-space image of the unit sample",
                          ctx.and_(ctx.le(v - img, 0.5), ctx.le(img - v, 0.5)))
            else:
                ctx.check(f"sample[{s},{j}] is the design-space image of the unit sample", ctx.eq(v, img))
    ctx.check("integer normalization switch restored",
              ctx.true() if ds.enable_integer_variables_normalization == cfg["int_norm_initial"] else ctx.false())
    check_array(ctx, "unit samples untouched", given[0], rows)


def h_execute(ctx, cfg):
    """Through execute(): library.samples / unit_samples, and the switch is restored before the evaluations."""
    from gemseo.algos.optimization_problem import OptimizationProblem
    from gemseo.core.mdo_functions.mdo_function import MDOFunction
    from harness.common import db_items, install_hash_stub, install_np_array_stub

    install_hash_stub(ctx)
    install_np_array_stub(ctx)
    ds, info = build_space(ctx, LAYOUTS[cfg["layout"]])
    d, S = info.n, cfg["S"]
    rows = _unit(ctx, S, d)
    F = ctx.uf("f", d)
    seen_switch = []

    def f(x):
        seen_switch.append(ds.enable_integer_variables_normalization)
        return ctx.array([F(*elems(x))])

    problem = OptimizationProblem(ds)
    problem.objective = MDOFunction(f, "f")
    lib = _stub_doe_library(lambda design_space: ctx.array(rows))
    lib.execute(problem, enable_progress_bar=False, log_problem=False)
    if check_shape(ctx, "library.samples", lib.samples, (S, d)):
        sm = _plain(lib.samples)
        for s_, r in enumerate(rows):
            for j in range(d):
                img = info.lb[j] + r[j] * (info.ub[j] - info.lb[j])
                v = _py(sm[s_, j])
                if info.is_int[j]:
                    ctx.check(f"library.samples[{s_},{j}] integer", ctx.is_int(v))
                    ctx.check(f"library.samples[{s_},{j}] rounded image", ctx.and_(ctx.le(v - img, 0.5), ctx.le(img - v, 0.5)))
                else:
                    ctx.check(f"library.samples[{s_},{j}] image", ctx.eq(v, img))
    check_array(ctx, "library.unit_samples", lib.unit_samples, rows)
    ctx.check("integer normalization off during the evaluations", ctx.true() if not any(seen_switch) else ctx.false())
    ctx.observe("samples", np.ravel(lib.samples))


def h_custom(ctx, cfg):
    """CustomDOE returns exactly the given samples, in order, with or without a design space (the samples are physical points)."""
    from gemseo.algos.doe.custom_doe.custom_doe import CustomDOE

    ds, info = build_space(ctx, LAYOUTS[cfg["layout"]])
    d, S = info.n, cfg["S"]
    rows = []
    for s_ in range(S):
        r = [ctx.real(f"s{s_}_{j}") for j in range(d)]
        for j, v in enumerate(r):
            ctx.assume(ctx.and_(ctx.le(info.lb[j], v), ctx.le(v, info.ub[j])))
            if info.is_int[j]:
                ctx.assume(ctx.is_int(v))
        rows.append(r)
    given = ctx.array(rows)
    out = CustomDOE().compute_doe(ds if cfg["with_space"] else d, samples=given)
    ctx.observe("samples", np.ravel(out))
    check_array(ctx, "CustomDOE returns the given samples in order", out, rows)
    check_array(ctx, "given samples untouched", given, rows)


def h_diagonal(ctx, cfg):
    """DiagonalDOE (gemseo's own pure-Python sampler): exactly n_samples points on the diagonal of the (symbolic) bounds, from the
    lower to the upper corner (or reversed for the listed variables), integer components integral and within bounds."""
    from gemseo.algos.doe.diagonal_doe.diagonal_doe import DiagonalDOE

    if ctx.symbolic:
        import gemseo.algos.doe.diagonal_doe.diagonal_doe as ddm
        from symgem.core import SymArray

        ctx.patch(ddm, "hstack", lambda arrays: SymArray(np.hstack(arrays)))   # float64 storage -> exact object storage
    ds, info = build_space(ctx, LAYOUTS[cfg["layout"]])
    d, n = info.n, cfg["n_samples"]
    reverse = list(cfg.get("reverse", []))
    out = DiagonalDOE().compute_doe(ds, n_samples=n, reverse=reverse)
    ctx.observe("samples", np.ravel(out))
    if not check_shape(ctx, "exactly n_samples samples", out, (n, d)):
        return
    sm = _plain(out) if isinstance(out, np.ndarray) else np.asarray(out, dtype=object)
    names = [nm for nm, size in zip(info.names, info.sizes) for _ in range(size)]
    for j in range(d):
        rev = names[j] in reverse or str(j) in reverse
        for k in range(n):
            t = Fraction(k, n - 1) if n > 1 else Fraction(0)
            if rev:
                t = 1 - t
            tt = float(t) if not ctx.symbolic else _exact(t)
            img = info.lb[j] + tt * (info.ub[j] - info.lb[j])
            v = _py(sm[k, j])
            ctx.check(f"sample[{k},{j}] within the bounds", ctx.and_(ctx.le(info.lb[j], v), ctx.le(v, info.ub[j])))
            if info.is_int[j]:
                ctx.check(f"sample[{k},{j}] integer", ctx.is_int(v))
                ctx.check(f"sample[{k},{j}] on the diagonal (rounded)", ctx.and_(ctx.le(v - img, 0.5), ctx.le(img - v, 0.5)))
            elif k in (0, n - 1) or float(t).is_integer() or (t.denominator & (t.denominator - 1)) == 0:
                # linspace is a float64 computation: only dyadic abscissae are exact
                ctx.check(f"sample[{k},{j}] on the diagonal", ctx.eq(v, img))


def _exact(fr):
    from symgem.core import SymReal, _ratval

    return SymReal(_ratval(fr))


def h_oat(ctx, cfg):
    """OATDOE / MorrisDOE (pure Python): d+1 points per initial point, consecutive points differ by +-step*(u-l) in one component,
    every point inside the bounds (for a relative step <= 1/2: a larger step cannot always be accommodated; the configuration
    with step 0.6 exhibits the recorded finding)."""
    from gemseo.algos.doe.factory import DOELibraryFactory

    if ctx.symbolic:
        import gemseo.algos.doe.oat_doe.oat_doe as oat
        from symgem.core import as_symarray

        ctx.patch(oat, "array", lambda pts, *a, **k: as_symarray(pts))   # array(list of arrays): exact object storage
    ds, info = build_space(ctx, LAYOUTS[cfg["layout"]])
    d = info.n
    step = cfg["step"]
    r = cfg.get("r", 1)
    inits = []
    for q in range(r):
        p0 = [ctx.real(f"x{q}_{j}") for j in range(d)]
        for v in p0:
            ctx.assume(ctx.and_(ctx.le(0.0, v), ctx.le(v, 1.0)))
        inits.append(p0)
    if cfg["algo"] == "OATDOE":
        out = DOELibraryFactory().create("OATDOE").compute_doe(ds, step=step, initial_point=ctx.array(inits[0]))
    else:
        out = DOELibraryFactory().create("MorrisDOE").compute_doe(ds, step=step, doe_algo_name="CustomDOE",
                                                                   doe_algo_settings={"samples": ctx.array(inits)})
    ctx.observe("samples", np.ravel(out))
    if not check_shape(ctx, "r*(d+1) samples", out, (r * (d + 1), d)):
        return
    sm = _plain(out) if isinstance(out, np.ndarray) else np.asarray(out, dtype=object)
    for q in range(r):
        base = q * (d + 1)
        for j in range(d):
            ctx.check(f"replicate {q}: first point is the image of the initial point [{j}]",
                      ctx.eq(_py(sm[base, j]), info.lb[j] + inits[q][j] * (info.ub[j] - info.lb[j])))
        for k in range(d + 1):
            for j in range(d):
                v = _py(sm[base + k, j])
                ctx.check(f"replicate {q}: sample[{k},{j}] within the bounds", ctx.and_(ctx.le(info.lb[j], v), ctx.le(v, info.ub[j])))
                if k > 0:
                    prev = _py(sm[base + k - 1, j])
                    if j == k - 1:
                        delta = step * (info.ub[j] - info.lb[j])
                        ctx.check(f"replicate {q}: sample {k} moves component {j} by +-step*(u-l)",
                                  ctx.or_(ctx.eq(v - prev, delta), ctx.eq(prev - v, delta)))
                    else:
                        ctx.check(f"replicate {q}: sample {k} keeps component {j}", ctx.eq(v, prev))


def configs(tier):
    out = []
    quick = tier == "quick"
    for lay in LAYOUTS:
        for S in ((1, 2) if quick else (1, 2, 3)):
            for init in (False, True):
                if quick and S == 2 and lay in ("iDi", "ii") and init:
                    continue
                out.append(("compute_doe", dict(layout=lay, S=S, int_norm_initial=init)))
        out.append(("compute_doe", dict(layout=lay, S=2, int_norm_initial=False, unit_sampling=True)))
    for lay in ("B", "Ci", "iC", "i"):
        out.append(("execute", dict(layout=lay, S=2)))
    for lay in ("B", "B,B", "Ci", "iC"):
        for n_s in (2, 3, 5):
            out.append(("diagonal", dict(layout=lay, n_samples=n_s)))
    for step in (0.25, 0.5, 0.6):
        out.append(("oat", dict(layout="B", algo="OATDOE", step=step)))
        out.append(("oat", dict(layout="BB", algo="OATDOE", step=step)))
    out.append(("oat", dict(layout="B,B", algo="MorrisDOE", step=0.25, r=2)))
    out.append(("oat", dict(layout="B", algo="MorrisDOE", step=0.5, r=2)))
    out.append(("diagonal", dict(layout="B,B", n_samples=3, reverse=["yy"])))
    out.append(("diagonal", dict(layout="BB", n_samples=3, reverse=["1"])))
    for lay in ("B", "BB", "Ci", "iC"):
        for with_space in (True, False):
            out.append(("custom", dict(layout=lay, S=2, with_space=with_space)))
    return out


def crosshair_targets(tier):
    from pathlib import Path

    f = str(Path(__file__).resolve().parent.parent / "crosshair" / "C14_seeder.py")
    return [dict(file=f, function=n, timeout=30 if tier == "quick" else 60)
            for n in ("_explicit_seed_returned", "_default_seed_sequence", "_explicit_then_default", "_two_seeders_agree")]


HARNESSES = {"compute_doe": h_compute_doe, "execute": h_execute, "custom": h_custom, "diagonal": h_diagonal, "oat": h_oat}
