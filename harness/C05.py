"""C05 - discipline caches are transparent.

Real code under test: ``BaseDiscipline.execute/__can_load_cache/__create_input_data_for_cache/_store_cache/set_cache``,
``Discipline.execute/linearize/_store_cache/_set_data_from_cache``, ``SimpleCache``, ``BaseFullCache.__getitem__/cache_outputs/
cache_jacobian/__ensure_input_data_exists/__len__``, ``MemoryFullCache(is_memory_shared=False)``, ``hash_data`` (stubbed for symbolic keys),
``compare_dict_of_arrays``.

The harness discipline is the uninterpreted discipline of ``harness.disc``: inputs ``a`` (size 2), ``b`` (size 1, symbolic default value),
``s`` (size 1, self-coupled: also an output), outputs ``y`` (size 2) and ``s``; every output component and every partial derivative is an
uninterpreted function of the flattened inputs.  "What an uncached copy returns for this call" is therefore the term ``F(inputs of the
call)`` (the uncached twin of DESIGN.md is replaced by these terms, which is the same statement by congruence); the configuration
``cache=none`` runs the very same oracle on a discipline without cache.

Labels carry the tag ``[after in-place modification of caller arrays and/or returned arrays]`` when the history so far contains such an
operation, so that a finding about in-place modified arrays can be told apart from the others by its label.
"""
from __future__ import annotations

import numpy as np

from harness.common import install_hash_stub
from harness.disc import Call, _discipline_class, to_list
from symgem.core import SymBool

META = dict(
    bounds=dict(
        quick="one discipline (inputs a[2], b[1] with a symbolic default value, s[1] self-coupled; outputs y[2], s[1]); histories of 3 calls (2 under colliding "
              "hashes), every call chosen by the solver among execute / linearize(all blocks) / execute with b omitted / execute or linearize re-using the "
              "arrays of the previous call after writing new values into them in place / execute or linearize after modifying in place every output array "
              "and Jacobian block returned so far / linearize of the registered sub-block dy/da (own configuration); input values symbolic and free to "
              "coincide or to lie within the tolerance; cache in {none, SimpleCache, MemoryFullCache(is_memory_shared=False)} set through "
              "Discipline.set_cache; tolerance 0 (all operations at calls 1 and 2) and the concrete tolerance 1/4 (four families of histories: plain, "
              "caller arrays modified, returned arrays modified after execute / after linearize; a = [symbol, 0] so that every norm is an absolute value); "
              "discipline variants: Jacobian computed by _compute_jacobian, Jacobian computed by _run (_has_jacobian=True), self-coupled output written "
              "in place into the input array; own configurations (SimpleCache and full cache, tolerance 0 and 1/4) add linearize(all blocks, execute=False), "
              "which leaves entries holding a Jacobian and no outputs",
        thorough="same with all nine operations at every call for tolerances 0, 1/4 and 2, and histories of 3 calls under colliding hashes",
    ),
    outside=[
        "HDF5Cache and re-opening a cache from its file (h5py stores machine floats)",
        "MemoryFullCache(is_memory_shared=True): the multiprocessing manager pickles every entry, which ends symbolic values (the pickling is also what "
        "protects that configuration against aliasing)",
        "sparse Jacobians (scipy.sparse cannot hold symbols)",
        "collisions of the real xxh3 byte hash and its consistency with array equality (-0.0, integer vs float dtypes)",
        "how often the Jacobian body runs when linearize(execute=False) is involved (that call never consults the cache), approximated Jacobians (C16), namespaces, data processors, virtual_execution, caches shared by several disciplines",
        "symbolic tolerances (z3 answers unknown on the products tolerance*norm once boundary points are excluded) and Euclidean norms of vectors with "
        "two symbolic components under a tolerance (sqrt auxiliaries: unknown)",
        "tolerance > 0: which of the eligible entries is served, how often the body runs for inputs that are close but not equal (equal inputs: at most once, asserted), and pairs of inputs closer than 2**-10 to the boundary of the "
        "tolerance test (its float64 evaluation is rounding-sensitive there)",
        "blocks of a partial Jacobian request that were not requested",
    ],
    stubs=[
        "hash=collide: harness.common.install_hash_stub (xxh3_64_hexdigest of a symbolic array is a constant: every key collides, look-ups are decided by "
        "compare_dict_of_arrays); used only in histories without in-place modification, where stored keys cannot change after they were hashed",
        "hash=perfect: gemseo.caches.base_full_cache.hash_data -> collision-free hash (equal values <=> equal hash, decided by forking on the equality "
        "with the data hashed earlier on the path); symbolic mode only, the replay uses the real xxh3 hash",
    ],
    assumptions=[
        "outputs and partial derivatives are uninterpreted functions of the flattened inputs (all inputs matter)",
        "the tolerance is >= 0 (the documented domain)",
        "tolerance t > 0: an input x is 'within t' of an earlier input z when, for every input name, norm(x-z) <= t*(1+norm(z)) (BaseCache doc: reference = "
        "cached array) or, for every input name, norm(x-z) <= t*(1+norm(x)) (what compare_dict_of_arrays computes: reference = its first argument, the new "
        "data); both readings are accepted",
        "tolerance t > 0: no pair of inputs of a history lies within 2**-10 of the boundary norm(x-z) == t*(1+norm(.)) of the tolerance test (there the float64 "
        "evaluation of the test is rounding-sensitive and a counterexample would not replay)",
        "the caller modifies arrays only between calls (single thread)",
    ],
)

EXPLORER_OPTS = {"quick": dict(max_paths=20000, wall_budget_s=300.0), "thorough": dict(max_paths=200000, wall_budget_s=3000.0)}

IN_SIZES = {"a": 2, "b": 1, "s": 1}
OUT_SIZES = {"y": 2, "s": 1}

# operation -> (kind, source of the input arrays, junk the returned arrays first, pass b)
OPS = {
    "exec": ("exec", "fresh", False, True),
    "lin": ("lin", "fresh", False, True),
    "exec_nob": ("exec", "fresh", False, False),
    "lin_nob": ("lin", "fresh", False, False),
    "lin_part": ("lin_part", "fresh", False, True),
    "lin_noexec": ("lin_noexec", "fresh", False, True),   # linearize(..., execute=False): the Jacobian body runs without a previous execution
    "exec_reuse": ("exec", "reuse", False, True),
    "lin_reuse": ("lin", "reuse", False, True),
    "exec_junk": ("exec", "fresh", True, True),
    "lin_junk": ("lin", "fresh", True, True),
}


# ------------------------------------------------------------------------------------------------
# stubs
# ------------------------------------------------------------------------------------------------
def _install_stubs(ctx, hash_mode):
    if not ctx.symbolic:
        return
    import gemseo.caches.base_full_cache as bfc

    if hash_mode == "collide":
        install_hash_stub(ctx)
        return
    seen = []  # (structure, scalars at hashing time, hash)

    def hash_data(data):
        names = [n for n in sorted(data) if data.get(n) is not None]
        struct = tuple((n, tuple(np.shape(data[n]))) for n in names)
        vals = [v for n in names for v in to_list(data[n])]
        for st, old, h in seen:
            if st == struct and bool(SymBool(_all_eq(ctx, vals, old))):
                return h
        seen.append((struct, list(vals), len(seen) + 1))
        return len(seen)

    ctx.patch(bfc, "hash_data", hash_data)


# ------------------------------------------------------------------------------------------------
# discipline variants
# ------------------------------------------------------------------------------------------------
_VARIANTS = {}


def _variant_class(variant):
    """``plain``: harness.disc discipline.  ``jac_in_run``: ``_run`` also fills ``jac`` and sets ``_has_jacobian`` (as e.g. gemseo's TaylorDiscipline
    does).  ``s_inplace``: ``_run`` writes the self-coupled output into the array it received as input (what ``__create_input_data_for_cache``
    protects against by deep-copying the self-coupled inputs)."""
    if variant in _VARIANTS:
        return _VARIANTS[variant]
    base = _discipline_class()
    if variant == "plain":
        cls = base
    elif variant == "jac_in_run":
        class JacInRun(base):
            def _run(self, input_data):
                out = super()._run(input_data)
                vals = self._inputs_now(input_data)
                if self.log is not None:
                    self.log.append(Call("jac", self.name, self.sym.flat(vals), vals, ((), ())))
                self.jac = {o: {i: self._ctx.array(self.sym.block(o, i, vals)) for i in self.sym.inputs} for o in self.sym.outputs}
                self._has_jacobian = True
                return out

        cls = JacInRun
    elif variant == "s_inplace":
        class SelfCoupledInPlace(base):
            def _run(self, input_data):
                out = super()._run(input_data)  # (terms built from the values read before anything is overwritten)
                arr = input_data["s"]
                arr[...] = out["s"]
                out["s"] = arr
                return out

        cls = SelfCoupledInPlace
    else:
        raise ValueError(variant)
    _VARIANTS[variant] = cls
    return cls


# ------------------------------------------------------------------------------------------------
# oracle helpers
# ------------------------------------------------------------------------------------------------
class _FirstViolation(Exception):
    """Raised by :func:`_check` to end a path at its first failing obligation (the later ones would only repeat the same defect)."""


def _check(ctx, label, formula):
    if ctx.check(label, formula) is False:
        raise _FirstViolation(label)


def _all_eq(ctx, a, b):
    if len(a) != len(b):
        return ctx.false()
    return ctx.and_(*[ctx.eq(x, y) for x, y in zip(a, b)])


def _flat(vals):
    return [v for n in sorted(vals) for v in vals[n]]


def _norm(ctx, xs):
    if len(xs) == 1:
        return abs(xs[0])
    return np.linalg.norm(ctx.array(list(xs)))


def _pair(ctx, new, old, tol):
    """(within, off_boundary) for the input ``new`` and the earlier input ``old``.

    within: ``new`` is within the tolerance of ``old`` (both documented readings, see META).
    off_boundary: the pair is not within 2**-10 of the boundary of the tolerance test (whose float64 evaluation is rounding-sensitive there)."""
    doc, code, off = [], [], []
    for n in sorted(new):
        diff = _norm(ctx, [x - z for x, z in zip(new[n], old[n])])
        b_doc = tol * (1.0 + _norm(ctx, old[n]))
        b_code = tol * (1.0 + _norm(ctx, new[n]))
        doc.append(ctx.le(diff, b_doc))
        code.append(ctx.le(diff, b_code))
        for bound in (b_doc, b_code):
            off.append(ctx.or_(ctx.le(diff, bound - MARGIN), ctx.le(bound + MARGIN, diff)))
    return ctx.or_(ctx.and_(*doc), ctx.and_(*code)), ctx.and_(*off)


MARGIN = 1.0 / 1024.0


def _tag(hist):
    """Which in-place modifications by the caller the history contains so far (part of every label)."""
    kinds = [nm for nm, key in (("caller arrays", "_reuse"), ("returned arrays", "_junk")) if any(key in o for o in hist)]
    return f" [after in-place modification of {' and '.join(kinds)}]" if kinds else ""


def _dense(b):
    return b.toarray() if hasattr(b, "toarray") else b


def _check_served(ctx, label, exact, near, vals, calls, triples_at):
    """The returned terms are those of an uncached discipline at the inputs of this call (tolerance 0), or at this or an earlier input within the
    tolerance (one and the same input for all the terms of the call)."""
    here = ctx.and_(*[ctx.eq(g, e) for _, g, e in triples_at(vals)])
    if exact:
        _check(ctx, f"{label} == uncached values at the inputs of this call", here)
        return
    disj = [here]
    for cl, w in zip(calls, near):
        disj.append(ctx.and_(w, *[ctx.eq(g, e) for _, g, e in triples_at(cl["vals"])]))
    _check(ctx, f"{label} == uncached values at this or an earlier input within the tolerance", ctx.or_(*disj))


# ------------------------------------------------------------------------------------------------
# the harness
# ------------------------------------------------------------------------------------------------
def h_history(ctx, cfg):
    try:
        _history(ctx, cfg)
    except _FirstViolation:
        pass


def _history(ctx, cfg):
    from gemseo.core.discipline import Discipline

    cache_kind, K = cfg["cache"], cfg["K"]
    variant = cfg.get("variant", "plain")
    _install_stubs(ctx, cfg.get("hash", "perfect"))
    tol = float(cfg.get("tol", 0))
    exact = tol == 0

    log = []
    bd = [ctx.real("bd0")]
    d = _variant_class(variant)(ctx, "D", dict(IN_SIZES), dict(OUT_SIZES), log=log, defaults={"b": ctx.array(bd)})
    sym = d.sym
    if cache_kind == "simple":
        d.set_cache(Discipline.CacheType.SIMPLE, tolerance=tol)
    elif cache_kind == "full":
        d.set_cache(Discipline.CacheType.MEMORY_FULL, tolerance=tol, is_memory_shared=False)
    else:
        d.set_cache(Discipline.CacheType.NONE)
    part_in, part_out = ["a"], ["y"]
    if any(OPS[o][0] == "lin_part" for o in cfg["ops"] + cfg.get("ops0", [])):
        d.add_differentiated_inputs(part_in)
        d.add_differentiated_outputs(part_out)

    ops_first = cfg.get("ops0") or [o for o in cfg["ops"] if OPS[o][1] == "fresh" and not OPS[o][2]]
    calls = []        # dicts: op, kind, vals (scalars at call time), runs, jacs
    cur = None        # the arrays passed at the previous call
    returned = []     # arrays returned by the discipline so far (outputs and Jacobian blocks)
    hist = []

    for k in range(K):
        allowed = ops_first if k == 0 else (cfg.get("ops1") or cfg["ops"]) if k == 1 else cfg["ops"]
        op = allowed[ctx.choice(f"op{k}", len(allowed))]
        kind, source, junk, with_b = OPS[op]
        hist.append(op)
        pre = f"call{k} {op}{_tag(hist)}: "
        new = {n: [ctx.real(f"x{k}{n}{i}") for i in range(sz)] for n, sz in IN_SIZES.items()}
        if cfg.get("a1_zero"):
            new["a"][1] = 0.0  # keeps every norm piecewise linear: norm([d, 0]) == |d| (see META bounds)

        if junk:
            # the caller modifies in place every array the discipline returned so far (outputs and Jacobian blocks)
            for arr in returned:
                arr[...] = arr + 1.0
        if source == "reuse":
            # the caller re-uses its buffers: same array objects, new values written in place
            data = dict(cur)
            for n, arr in data.items():
                arr[...] = ctx.array(new[n])
        else:
            data = {n: ctx.array(new[n]) for n in IN_SIZES if with_b or n != "b"}
        vals = {n: (list(new[n]) if n in data else list(bd)) for n in IN_SIZES}
        cur = data
        near = []
        if not exact and calls:
            pairs = [_pair(ctx, vals, cl["vals"], tol) for cl in calls]
            near = [w for w, _ in pairs]
            ctx.assume(ctx.and_(*[o for _, o in pairs]))

        n_log = len(log)
        if kind == "exec":
            out = d.execute(dict(data))
            got = {}
            for o, so in OUT_SIZES.items():
                v = out.get(o)
                if v is None or len(to_list(v)) != so:
                    _check(ctx, pre + f"output {o} missing or of the wrong size", ctx.false())
                    continue
                ctx.observe(f"call{k} {o}", np.ravel(v).copy())  # (a copy: the harness may modify v in place later)
                got[o] = to_list(v)
                if not (variant == "s_inplace" and o == "s"):  # (that array is the caller's own input array)
                    returned.append(v)
            _check_served(ctx, pre + "outputs", exact, near, vals, calls,
                          lambda z: [(f"{o}[{i}]", got[o][i], sym.value(o, i, z)) for o in got for i in range(OUT_SIZES[o])])
            # the returned data hold the inputs of this call (the self-coupled s holds its output value)
            for n in ("a", "b"):
                v = out.get(n)
                if v is None or len(to_list(v)) != IN_SIZES[n]:
                    _check(ctx, pre + f"returned input {n} missing", ctx.false())
                    continue
                for i, (g, e) in enumerate(zip(to_list(v), vals[n])):
                    _check(ctx, pre + f"returned input {n}[{i}] is the input of this call", ctx.eq(g, e))
        else:
            if kind == "lin":
                jac = d.linearize(dict(data), compute_all_jacobians=True)
                wanted = [(o, n) for o in OUT_SIZES for n in IN_SIZES]
            elif kind == "lin_noexec":
                jac = d.linearize(dict(data), compute_all_jacobians=True, execute=False)
                wanted = [(o, n) for o in OUT_SIZES for n in IN_SIZES]
            else:
                jac = d.linearize(dict(data))
                wanted = [(o, n) for o in part_out for n in part_in]
            blocks = {}
            for o, n in wanted:
                so, sn = OUT_SIZES[o], IN_SIZES[n]
                try:
                    blk = _dense(jac[o][n])
                except (KeyError, TypeError):
                    _check(ctx, pre + f"Jacobian block d{o}/d{n} missing", ctx.false())
                    continue
                if tuple(np.shape(blk)) != (so, sn):
                    _check(ctx, pre + f"Jacobian block d{o}/d{n} has shape {tuple(np.shape(blk))}", ctx.false())
                    continue
                ctx.observe(f"call{k} d{o}/d{n}", np.ravel(blk).copy())
                blocks[(o, n)] = [to_list(blk[r]) for r in range(so)]
                returned.append(jac[o][n])
            _check_served(ctx, pre + "Jacobian", exact, near, vals, calls,
                          lambda z: [(f"d{o}/d{n}[{r},{c}]", blocks[(o, n)][r][c], sym.partial(o, r, n, c, z))
                                     for (o, n) in blocks for r in range(OUT_SIZES[o]) for c in range(IN_SIZES[n])])
            # the output the discipline holds after linearize is served like the one of execute (s is reset to its input value)
            held = d.io.data.get("y")
            if kind == "lin_noexec":
                pass  # (no execution was requested: what the discipline holds as outputs is not specified)
            elif held is None or len(to_list(held)) != OUT_SIZES["y"]:
                _check(ctx, pre + "output y missing after linearize", ctx.false())
            else:
                hy = to_list(held)
                _check_served(ctx, pre + "outputs held after linearize", exact, near, vals, calls,
                              lambda z: [(f"y[{i}]", hy[i], sym.value("y", i, z)) for i in range(OUT_SIZES["y"])])

        runs = [c for c in log[n_log:] if c.kind == "run"]
        jacs = [c for c in log[n_log:] if c.kind == "jac"]
        calls.append(dict(op=op, kind=kind, vals=vals, runs=runs, jacs=jacs))

        # the body only ever sees the inputs of the call during which it runs
        for c in runs + jacs:
            _check(ctx, pre + f"the body ({c.kind}) ran on the inputs of this call", _all_eq(ctx, c.flat, _flat(vals)))
        # the arrays of the caller still hold what the caller wrote
        for n, arr in data.items():
            if variant == "s_inplace" and n == "s":
                continue  # this body overwrites its self-coupled input by design
            for i, (g, e) in enumerate(zip(to_list(arr), new[n])):
                _check(ctx, pre + f"caller array {n}[{i}] untouched", ctx.eq(g, e))
        _check(ctx, pre + "default value of b untouched", _all_eq(ctx, to_list(d.default_input_data["b"]), bd))

        # ---- how often the body runs (tolerance 0) ---------------------------------------------
        # (after linearize(execute=False) nothing was executed at that input: the next execution there must run the body)
        if exact and cache_kind in ("simple", "full") and k > 0 and calls[k - 1]["kind"] != "lin_noexec":
            same = _all_eq(ctx, _flat(vals), _flat(calls[k - 1]["vals"]))
            _check(ctx, pre + "same input as the previous call: the body (run) is not executed again",
                   ctx.implies(same, ctx.true() if not runs else ctx.false()))
            # (a complete request that follows a partial one at the same input is recomputed at every call and never stored: inefficient, not asserted)
            if kind == "lin" and calls[k - 1]["kind"] == "lin" and not any(c["kind"] == "lin_part" for c in calls):
                _check(ctx, pre + "same input as the previous linearization: the body (jac) is not executed again",
                       ctx.implies(same, ctx.true() if not jacs else ctx.false()))
        if len(runs) > 1 or len(jacs) > 1:
            _check(ctx, pre + f"the body ran {len(runs)} (run) / {len(jacs)} (jac) times during one call", ctx.false())

    # ---- full cache, tolerance 0: at most one run per distinct input, one entry per distinct input -------
    pre = f"end{_tag(hist)}: "
    if cache_kind == "full":
        # (with a tolerance too: an input equal to an earlier one is within any tolerance of it)
        all_runs = [(k, c) for k, cl in enumerate(calls) for c in cl["runs"]]
        for i in range(len(all_runs)):
            for j in range(i + 1, len(all_runs)):
                (ki, ci), (kj, cj) = all_runs[i], all_runs[j]
                _check(ctx, pre + f"full cache: the body (run) ran at most once per distinct input (calls {ki},{kj})", ctx.not_(_all_eq(ctx, ci.flat, cj.flat)))
    if cache_kind == "full" and exact:
        if not any(c["kind"] == "lin_part" for c in calls):  # (a full request after a partial one is recomputed and not stored: not asserted)
            all_jacs = [(k, c) for k, cl in enumerate(calls) for c in cl["jacs"]]
            for i in range(len(all_jacs)):
                for j in range(i + 1, len(all_jacs)):
                    (ki, ci), (kj, cj) = all_jacs[i], all_jacs[j]
                    if "lin_noexec" in (calls[ki]["kind"], calls[kj]["kind"]):
                        continue  # linearize(execute=False) never consults the cache and leaves an entry without outputs, which a later complete linearization recomputes: the statement counts executions of the body, recomputed Jacobians are not asserted
                    _check(ctx, pre + f"full cache: the body (jac) ran at most once per distinct input (calls {ki},{kj})", ctx.not_(_all_eq(ctx, ci.flat, cj.flat)))
        n_distinct = 0.0
        for k in range(K):
            is_new = ctx.and_(*[ctx.not_(_all_eq(ctx, _flat(calls[k]["vals"]), _flat(calls[j]["vals"]))) for j in range(k)])
            n_distinct = n_distinct + ctx.ite(is_new, 1.0, 0.0)
        _check(ctx, pre + "full cache: len(cache) == number of distinct inputs", ctx.eq(float(len(d.cache)), n_distinct))
        # every entry is the record of one call: inputs of that call, outputs and Jacobian blocks at those inputs
        for e, entry in enumerate(d.cache.get_all_entries()):
            ein = {n: to_list(entry.inputs[n]) for n in IN_SIZES if n in entry.inputs}
            if set(ein) != set(IN_SIZES):
                _check(ctx, pre + f"full cache: entry {e} lacks inputs {sorted(set(IN_SIZES) - set(ein))}", ctx.false())
                continue
            disj = []
            for cl in calls:
                parts = [_all_eq(ctx, _flat(ein), _flat(cl["vals"]))]
                for o, v in entry.outputs.items():
                    parts += [ctx.eq(g, sym.value(o, i, cl["vals"])) for i, g in enumerate(to_list(v))]
                for o, row in (entry.jacobian or {}).items():
                    for n, blk in row.items():
                        blk = _dense(blk)
                        parts += [ctx.eq(to_list(blk[r])[c], sym.partial(o, r, n, c, cl["vals"])) for r in range(OUT_SIZES[o]) for c in range(IN_SIZES[n])]
                disj.append(ctx.and_(*parts))
            _check(ctx, pre + f"full cache: entry {e} records the inputs, outputs and Jacobian of one call", ctx.or_(*disj))
    ctx.observe("n_body_calls", [float(len(log))])


# ------------------------------------------------------------------------------------------------
BASIC = ["exec", "lin", "exec_nob"]
# NOT in the menus: "exec_junk"/"lin_junk" (the caller modifies in place arrays the discipline RETURNED earlier).  The property only
# speaks of arrays the caller passed in; SimpleCache and the unshared MemoryFullCache hand out their own arrays on a hit (gemseo
# behaviour observed, recorded in DESIGN.md section 8 as "not asserted").  The operations stay available for experiments.
INPLACE = ["exec", "lin", "exec_nob", "exec_reuse", "lin_reuse"]
ALL = [*INPLACE, "lin_nob", "lin_part"]


def configs(tier):
    out = []
    quick = tier == "quick"

    def add(**cfg):
        if cfg.get("tol"):
            cfg["a1_zero"] = True
        out.append(("history", cfg))

    add(cache="none", K=3, ops=INPLACE if quick else ALL)
    for cache in ("simple", "full"):
        # tolerance 0: every operation at calls 1 and 2, the first call pinned per configuration to spread the work
        for op0 in (["exec", "lin"] if quick else BASIC):
            add(cache=cache, tol=0, K=3, hash="perfect", ops0=[op0], ops=INPLACE if quick else ALL)
        # tolerances: quick = four families of histories (plain, caller arrays modified, returned arrays modified); thorough = everything
        for tol in ((0.25,) if quick else (0.25, 2.0)):
            if quick:
                add(cache=cache, tol=tol, K=3, hash="perfect", ops0=["exec"], ops=BASIC)
                add(cache=cache, tol=tol, K=3, hash="perfect", ops0=["lin"], ops=BASIC)
                add(cache=cache, tol=tol, K=3, hash="perfect", ops0=["exec"], ops=["exec", "exec_reuse", "lin_reuse"])
            else:
                for op0 in BASIC:
                    for op1 in ALL:
                        add(cache=cache, tol=tol, K=3, hash="perfect", ops0=[op0], ops1=[op1], ops=ALL)
        # every hash collides (no in-place modification: stored keys must not change after they were hashed)
        for tol in (0, 0.25):
            add(cache=cache, tol=tol, K=2 if quick else 3, hash="collide", ops=BASIC)
        # linearization without a previous execution (entries holding a Jacobian and no outputs)
        add(cache=cache, tol=0, K=3, hash="perfect", ops0=["lin_noexec"], ops=["exec", "lin", "lin_noexec"])
        add(cache=cache, tol=0.25, K=3, hash="perfect", ops0=["lin_noexec"], ops=["exec", "lin", "lin_noexec"])
        add(cache=cache, tol=0.25, K=3, hash="perfect", ops0=["exec"], ops1=["lin_noexec"], ops=["exec", "lin", "lin_noexec"])
        # ... followed by calls that re-use the caller's arrays after writing new values into them in place
        add(cache=cache, tol=0, K=3, hash="perfect", ops0=["lin_noexec"], ops=["lin_reuse", "exec_reuse", "lin"])
        # partial Jacobian requests, Jacobian computed by _run, self-coupled output written in place
        add(cache=cache, tol=0, K=3, hash="perfect", ops=["exec", "lin", "lin_part"])
        add(cache=cache, tol=0, K=3, hash="perfect", variant="jac_in_run", ops=["exec", "lin", "exec_reuse"])
        add(cache=cache, tol=0.25, K=3, hash="perfect", variant="jac_in_run", ops0=["exec", "exec_nob"], ops=BASIC)
        add(cache=cache, tol=0.25, K=3, hash="perfect", variant="jac_in_run", ops0=["lin"], ops=BASIC)
        # (no linearization with the in-place body: it overwrites the very array linearize() resets the self-coupled input from, cache or not)
        add(cache=cache, tol=0, K=3, hash="perfect", variant="s_inplace", ops=["exec", "exec_nob", "exec_reuse"])
        add(cache=cache, tol=0.25, K=3, hash="perfect", variant="s_inplace", ops=["exec", "exec_nob"])
    return out


HARNESSES = {"history": h_history}
