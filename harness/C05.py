"""C05 - discipline caches are transparent.

Real code under test: ``BaseDiscipline.execute/__can_load_cache/__create_input_data_for_cache/_store_cache/set_cache``,
``Discipline.execute/linearize/_store_cache/_set_data_from_cache``, ``SimpleCache``, ``BaseFullCache.__getitem__/cache_outputs/
cache_jacobian/__ensure_input_data_exists/__len__``, ``MemoryFullCache(is_memory_shared=False)``, ``hash_data`` (stubbed for symbolic keys),
``compare_dict_of_arrays``.

The harness discipline is the uninterpreted discipline of ``harness.disc``: inputs ``a`` (size 2), ``b`` (size 1, symbolic default value),
``s`` (size 1, self-coupled: also an output), outputs ``y`` (size 2) and ``s``; every output component and every partial derivative is an
uninterpreted function of the flattened inputs.  "What an uncached copy returns for this call" is therefore the term ``F(inputs of the
call)`` (the uncached twin of DESIGN.md is replaced by these terms, which is the same statement by congruence); the configuration
``cache=none`` runs the very same oracle on a discipline without cache.
"""
from __future__ import annotations

import numpy as np

from harness.common import install_hash_stub
from harness.disc import make_discipline, to_list
from symgem.core import SymBool

META = dict(
    bounds=dict(
        quick="one discipline (inputs a[2], b[1] defaulted, s[1] self-coupled; outputs y[2], s[1]); histories of <= 3 calls, every call chosen by the "
              "solver among execute / linearize(all blocks) / execute with b omitted / execute or linearize re-using the arrays of the previous call after "
              "modifying them in place / execute or linearize after modifying in place every array returned so far; input values symbolic and free to "
              "coincide or to lie within the tolerance; cache in {none, SimpleCache, MemoryFullCache(is_memory_shared=False)}; tolerance 0, 1/4 and symbolic > 0",
        thorough="same with every operation at every step and partial Jacobian requests",
    ),
    outside=[
        "HDF5Cache and re-opening a cache from its file (h5py stores machine floats)",
        "MemoryFullCache(is_memory_shared=True): the multiprocessing manager pickles every entry, which ends symbolic values (the pickling is what "
        "protects that configuration against aliasing)",
        "sparse Jacobians (scipy.sparse cannot hold symbols)",
        "collisions of the real xxh3 byte hash and its consistency with array equality (-0.0, integer vs float dtypes)",
        "linearize(execute=False), approximated Jacobians (C16), namespaces, data processors, virtual_execution",
        "tolerance > 0: which of the eligible entries is served, and how often the body runs",
    ],
    stubs=[
        "hash=collide: harness.common.install_hash_stub (xxh3_64_hexdigest of a symbolic array is a constant: every key collides, look-ups are decided by "
        "compare_dict_of_arrays); used only in histories without in-place modification, where stored keys cannot change after they were hashed",
        "hash=perfect: gemseo.caches.base_full_cache.hash_data -> collision-free hash (equal values <=> equal hash, decided by forking on the equality "
        "with the data hashed earlier on the path); symbolic mode only, the replay uses the real xxh3 hash",
        "gemseo.caches.base_full_cache.get_multi_processing_manager -> local object whose dict() is a plain dict (the index hash -> entry numbers; "
        "value-preserving, avoids one manager round-trip per access)",
    ],
    assumptions=[
        "outputs and partial derivatives are uninterpreted functions of the flattened inputs (all inputs matter)",
        "the tolerance is >= 0 (the documented domain)",
        "tolerance t > 0: an input x is 'within t' of an earlier input z when, for every input name, norm(x-z) <= t*(1+norm(z)) (BaseCache doc: reference = "
        "cached array) or, for every input name, norm(x-z) <= t*(1+norm(x)) (what compare_dict_of_arrays computes: reference = its first argument, the new "
        "data); both readings are accepted",
    ],
)

EXPLORER_OPTS = {"quick": dict(max_paths=20000, wall_budget_s=300.0), "thorough": dict(max_paths=200000, wall_budget_s=3000.0)}

IN_SIZES = {"a": 2, "b": 1, "s": 1}
OUT_SIZES = {"y": 2, "s": 1}

# operation -> (kind, source of the input arrays, junk the returned arrays first, pass b)
OPS = {
    "exec": ("exec", "fresh", False, True),
    "lin": ("lin", "fresh", False, True),
    "exec_nob": ("exec", "fresh", False, False),
    "lin_nob": ("lin", "fresh", False, False),
    "exec_reuse": ("exec", "reuse", False, True),
    "lin_reuse": ("lin", "reuse", False, True),
    "exec_junk": ("exec", "fresh", True, True),
    "lin_junk": ("lin", "fresh", True, True),
}


# ------------------------------------------------------------------------------------------------
# stubs
# ------------------------------------------------------------------------------------------------
class _LocalManager:
    def dict(self):
        return {}


def _install_stubs(ctx, hash_mode):
    import gemseo.caches.base_full_cache as bfc

    ctx.patch(bfc, "get_multi_processing_manager", lambda: _LocalManager(), symbolic_only=False)
    if not ctx.symbolic:
        return
    if hash_mode == "collide":
        install_hash_stub(ctx)
        return
    seen = []  # (structure, scalars at hashing time, hash)

    def hash_data(data):
        names = [n for n in sorted(data) if data.get(n) is not None]
        struct = tuple((n, tuple(np.shape(data[n]))) for n in names)
        vals = [v for n in names for v in to_list(data[n])]
        for st, old, h in seen:
            if st == struct and bool(SymBool(_all_eq(ctx, vals, old))):
                return h
        seen.append((struct, list(vals), len(seen) + 1))
        return len(seen)

    ctx.patch(bfc, "hash_data", hash_data)


# ------------------------------------------------------------------------------------------------
# oracle helpers
# ------------------------------------------------------------------------------------------------
def _all_eq(ctx, a, b):
    if len(a) != len(b):
        return ctx.false()
    return ctx.and_(*[ctx.eq(x, y) for x, y in zip(a, b)])


def _flat(vals):
    return [v for n in sorted(vals) for v in vals[n]]


def _norm(ctx, xs):
    if len(xs) == 1:
        return abs(xs[0])
    return np.linalg.norm(ctx.array(list(xs)))


def _within(ctx, new, old, tol):
    """``new`` is within the tolerance of the earlier input ``old`` (both documented readings, see META)."""
    doc, code = [], []
    for n in sorted(new):
        diff = _norm(ctx, [x - z for x, z in zip(new[n], old[n])])
        doc.append(ctx.le(diff, tol * (1.0 + _norm(ctx, old[n]))))
        code.append(ctx.le(diff, tol * (1.0 + _norm(ctx, new[n]))))
    return ctx.or_(ctx.and_(*doc), ctx.and_(*code))


MARGIN = 1.0 / 1024.0


def _assume_off_boundary(ctx, new, old, tol):
    """The pair is not within a relative 2**-10 of the boundary of the tolerance test (whose float64 evaluation is rounding-sensitive there)."""
    for n in sorted(new):
        diff = _norm(ctx, [x - z for x, z in zip(new[n], old[n])])
        for ref in (_norm(ctx, old[n]), _norm(ctx, new[n])):
            bound = tol * (1.0 + ref)
            ctx.assume(ctx.or_(ctx.le(diff, bound * (1.0 - MARGIN)), ctx.le(bound * (1.0 + MARGIN), diff)))


def _dense(b):
    return b.toarray() if hasattr(b, "toarray") else b


# ------------------------------------------------------------------------------------------------
# the harness
# ------------------------------------------------------------------------------------------------
def h_history(ctx, cfg):
    from gemseo.core.discipline import Discipline

    cache_kind, K = cfg["cache"], cfg["K"]
    _install_stubs(ctx, cfg.get("hash", "perfect"))
    tol_cfg = cfg.get("tol", 0)
    if tol_cfg == "sym":
        tol = ctx.real("tol")
        ctx.assume(ctx.lt(0.0, tol))
    else:
        tol = float(tol_cfg)
    exact = tol_cfg == 0

    log = []
    bd = [ctx.real("bd0")]
    d = make_discipline(ctx, "D", IN_SIZES, OUT_SIZES, log=log, defaults={"b": ctx.array(bd)})
    sym = d.sym
    if cache_kind == "simple":
        d.set_cache(Discipline.CacheType.SIMPLE, tolerance=tol)
    elif cache_kind == "full":
        d.set_cache(Discipline.CacheType.MEMORY_FULL, tolerance=tol, is_memory_shared=False)
    else:
        d.set_cache(Discipline.CacheType.NONE)

    ops_first = cfg.get("ops0") or [o for o in cfg["ops"] if OPS[o][1] == "fresh" and not OPS[o][2]]
    calls = []        # dicts: op, kind, vals (scalars at call time), runs, jacs
    cur = None        # the arrays passed at the previous call
    returned = []     # (label, array returned by the discipline, was it junked by the harness)
    n_runs_seen = 0

    for k in range(K):
        allowed = ops_first if k == 0 else cfg["ops"]
        op = allowed[ctx.choice(f"op{k}", len(allowed))]
        kind, source, junk, with_b = OPS[op]
        pre = f"call{k} {op}: "
        new = {n: [ctx.real(f"x{k}{n}{i}") for i in range(sz)] for n, sz in IN_SIZES.items()}
        if cfg.get("a1_zero"):
            new["a"][1] = 0.0  # keeps every norm piecewise linear: norm([d, 0]) == |d| (see META bounds)

        if junk:
            # the caller modifies in place every array the discipline returned so far (outputs and Jacobian blocks)
            for rec in returned:
                rec[1][...] = rec[1] + 1.0
                rec[2] = True
        if source == "reuse":
            # the caller re-uses its buffers: same array objects, new values written in place
            data = dict(cur)
            for n, arr in data.items():
                arr[...] = ctx.array(new[n])
        else:
            data = {n: ctx.array(new[n]) for n in IN_SIZES if with_b or n != "b"}
        vals = {n: (list(new[n]) if n in data else list(bd)) for n in IN_SIZES}
        cur = data
        if not exact:
            for cl in calls:
                _assume_off_boundary(ctx, vals, cl["vals"], tol)

        n_log = len(log)
        if kind == "exec":
            out = d.execute(dict(data))
            got = {}
            for o, so in OUT_SIZES.items():
                v = out.get(o)
                if v is None or len(to_list(v)) != so:
                    ctx.check(pre + f"output {o} missing or of the wrong size", ctx.false())
                    continue
                ctx.observe(f"call{k} {o}", np.ravel(v))
                got[o] = to_list(v)
                returned.append([f"call{k} output {o}", v, False])
            _check_served(ctx, pre + "outputs", exact, tol, vals, calls,
                          lambda z: [(f"{o}[{i}]", got[o][i], sym.value(o, i, z)) for o in got for i in range(OUT_SIZES[o])])
            # the returned data hold the inputs of this call (the self-coupled s holds its output value)
            for n in ("a", "b"):
                v = out.get(n)
                if v is None or len(to_list(v)) != IN_SIZES[n]:
                    ctx.check(pre + f"returned input {n} missing", ctx.false())
                    continue
                for i, (g, e) in enumerate(zip(to_list(v), vals[n])):
                    ctx.check(pre + f"returned input {n}[{i}] is the input of this call", ctx.eq(g, e))
        else:
            jac = d.linearize(dict(data), compute_all_jacobians=True)
            blocks = {}
            for o, so in OUT_SIZES.items():
                for n, sn in IN_SIZES.items():
                    try:
                        blk = _dense(jac[o][n])
                    except (KeyError, TypeError):
                        ctx.check(pre + f"Jacobian block d{o}/d{n} missing", ctx.false())
                        continue
                    if tuple(np.shape(blk)) != (so, sn):
                        ctx.check(pre + f"Jacobian block d{o}/d{n} has shape {tuple(np.shape(blk))}", ctx.false())
                        continue
                    ctx.observe(f"call{k} d{o}/d{n}", np.ravel(blk))
                    blocks[(o, n)] = [to_list(blk[r]) for r in range(so)]
                    returned.append([f"call{k} block d{o}/d{n}", jac[o][n], False])
            _check_served(ctx, pre + "Jacobian", exact, tol, vals, calls,
                          lambda z: [(f"d{o}/d{n}[{r},{c}]", blocks[(o, n)][r][c], sym.partial(o, r, n, c, z))
                                     for (o, n) in blocks for r in range(OUT_SIZES[o]) for c in range(IN_SIZES[n])])
            # the outputs the discipline holds after linearize are served like those of execute (s is reset to its input value)
            held = d.io.data.get("y")
            if held is None or len(to_list(held)) != OUT_SIZES["y"]:
                ctx.check(pre + "output y missing after linearize", ctx.false())
            else:
                hy = to_list(held)
                _check_served(ctx, pre + "outputs held after linearize", exact, tol, vals, calls,
                              lambda z: [(f"y[{i}]", hy[i], sym.value("y", i, z)) for i in range(OUT_SIZES["y"])])

        runs = [c for c in log[n_log:] if c.kind == "run"]
        jacs = [c for c in log[n_log:] if c.kind == "jac"]
        calls.append(dict(op=op, kind=kind, vals=vals, runs=runs, jacs=jacs))

        # the body only ever sees the inputs of the call during which it runs
        for c in runs + jacs:
            ctx.check(pre + f"the body ({c.kind}) ran on the inputs of this call", _all_eq(ctx, c.flat, _flat(vals)))
        # the arrays of the caller still hold what the caller wrote
        for n, arr in data.items():
            for i, (g, e) in enumerate(zip(to_list(arr), new[n])):
                ctx.check(pre + f"caller array {n}[{i}] untouched", ctx.eq(g, e))
        ctx.check(pre + "default value of b untouched", _all_eq(ctx, to_list(d.default_input_data["b"]), bd))

        # ---- how often the body runs (tolerance 0) ---------------------------------------------
        if exact and cache_kind in ("simple", "full") and k > 0:
            same = _all_eq(ctx, _flat(vals), _flat(calls[k - 1]["vals"]))
            ctx.check(pre + "same input as the previous call: the body (run) is not executed again",
                      ctx.implies(same, ctx.true() if not runs else ctx.false()))
            if kind == "lin" and calls[k - 1]["kind"] == "lin":
                ctx.check(pre + "same input as the previous linearization: the body (jac) is not executed again",
                          ctx.implies(same, ctx.true() if not jacs else ctx.false()))
        if len(runs) > 1 or len(jacs) > 1:
            ctx.check(pre + f"the body ran {len(runs)} (run) / {len(jacs)} (jac) times during one call", ctx.false())

    # ---- full cache, tolerance 0: at most one run per distinct input, one entry per distinct input -------
    if cache_kind == "full" and exact:
        all_runs = [(k, c) for k, cl in enumerate(calls) for c in cl["runs"]]
        for i in range(len(all_runs)):
            for j in range(i + 1, len(all_runs)):
                (ki, ci), (kj, cj) = all_runs[i], all_runs[j]
                ctx.check(f"full cache: the body (run) ran at most once per distinct input (calls {ki},{kj}: {calls[ki]['op']},{calls[kj]['op']})",
                          ctx.not_(_all_eq(ctx, ci.flat, cj.flat)))
        all_jacs = [(k, c) for k, cl in enumerate(calls) for c in cl["jacs"]]
        for i in range(len(all_jacs)):
            for j in range(i + 1, len(all_jacs)):
                (ki, ci), (kj, cj) = all_jacs[i], all_jacs[j]
                ctx.check(f"full cache: the body (jac) ran at most once per distinct input (calls {ki},{kj}: {calls[ki]['op']},{calls[kj]['op']})",
                          ctx.not_(_all_eq(ctx, ci.flat, cj.flat)))
        n_distinct = 0.0
        for k in range(K):
            is_new = ctx.and_(*[ctx.not_(_all_eq(ctx, _flat(calls[k]["vals"]), _flat(calls[j]["vals"]))) for j in range(k)])
            n_distinct = n_distinct + ctx.ite(is_new, 1.0, 0.0)
        ctx.check(f"full cache: len(cache) == number of distinct inputs (ops {[c['op'] for c in calls]})", ctx.eq(float(len(d.cache)), n_distinct))
        # every entry is the record of one call: inputs of that call, outputs and Jacobian at those inputs
        for e, entry in enumerate(d.cache.get_all_entries()):
            ein = {n: to_list(entry.inputs[n]) for n in IN_SIZES if n in entry.inputs}
            if set(ein) != set(IN_SIZES):
                ctx.check(f"full cache: entry {e} lacks inputs {sorted(set(IN_SIZES) - set(ein))}", ctx.false())
                continue
            conj = []
            for cl in calls:
                parts = [_all_eq(ctx, _flat(ein), _flat(cl["vals"]))]
                for o, v in entry.outputs.items():
                    parts += [ctx.eq(g, sym.value(o, i, cl["vals"])) for i, g in enumerate(to_list(v))]
                for o, row in (entry.jacobian or {}).items():
                    for n, blk in row.items():
                        blk = _dense(blk)
                        parts += [ctx.eq(to_list(blk[r])[c], sym.partial(o, r, n, c, cl["vals"])) for r in range(OUT_SIZES[o]) for c in range(IN_SIZES[n])]
                conj.append(ctx.and_(*parts))
            if not any(rec[2] for rec in returned):  # (entries may legitimately share arrays the caller junked? no: but keep the labels apart)
                ctx.check(f"full cache: entry {e} records the inputs, outputs and Jacobian of one call", ctx.or_(*conj))
            else:
                ctx.check(f"full cache: entry {e} records the inputs, outputs and Jacobian of one call (after the caller modified returned arrays)", ctx.or_(*conj))
    ctx.observe("n_body_calls", [float(len(log))])


def _check_served(ctx, label, exact, tol, vals, calls, triples_at):
    """The returned terms are those of an uncached discipline at the inputs of this call (tolerance 0), or at this or an earlier input within the
    tolerance (one and the same input for all the terms of the call)."""
    here = triples_at(vals)
    if exact:
        for nm, g, e in here:
            ctx.check(f"{label} {nm} == uncached value at the inputs of this call", ctx.eq(g, e))
        return
    disj = [ctx.and_(*[ctx.eq(g, e) for _, g, e in here])]
    for cl in calls:
        disj.append(ctx.and_(_within(ctx, vals, cl["vals"], tol), *[ctx.eq(g, e) for _, g, e in triples_at(cl["vals"])]))
    ctx.check(f"{label} == uncached values at this or an earlier input within the tolerance", ctx.or_(*disj))


# ------------------------------------------------------------------------------------------------
BASIC = ["exec", "lin", "exec_nob"]
INPLACE = ["exec", "lin", "exec_nob", "exec_reuse", "lin_reuse", "exec_junk", "lin_junk"]


def configs(tier):
    out = []
    quick = tier == "quick"
    out.append(("history", dict(cache="none", K=3, ops=INPLACE)))
    for cache in ("simple", "full"):
        for tol in (0, 0.25, "sym"):
            for op0 in BASIC:
                out.append(("history", dict(cache=cache, tol=tol, K=3, hash="perfect", ops0=[op0], ops=INPLACE)))
            out.append(("history", dict(cache=cache, tol=tol, K=2 if quick else 3, hash="collide", ops=BASIC)))
    return out


HARNESSES = {"history": h_history}
