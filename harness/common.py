"""Helpers shared by the per-property harnesses."""
from __future__ import annotations

import itertools

import numpy as np

from symgem.core import HashToken, SymArray, Unsupported, has_sym, _plain, _py  # noqa: F401


def uf_function(ctx, name, m, n, scalar=False, log=None):
    """An uninterpreted function R^n -> R^m and its (independent) uninterpreted Jacobian.

    Returns ``(func, jac, F, dF)``: ``func``/``jac`` are what the code under test calls (array in, array out),
    ``F[i](*x)``/``dF[i][j](*x)`` are the scalar symbols for the oracle.  ``log`` collects (kind, x, returned array, flat list of the terms it was built from).
    """
    F = [ctx.uf(f"{name}_{i}", n) for i in range(m)]
    dF = [[ctx.uf(f"d{name}_{i}_{j}", n) for j in range(n)] for i in range(m)]

    def func(x):
        xs = [_py(v) for v in np.asarray(x).ravel()] if not isinstance(x, np.ndarray) else [_py(v) for v in _plain(x).ravel()]
        if len(xs) != n:
            raise ValueError(f"{name}: expected {n} inputs, got {len(xs)}")
        vals = [f(*xs) for f in F]
        out = vals[0] if scalar else ctx.array(vals)
        if log is not None:
            log.append(("func", xs, out, list(vals)))
        return out

    def jac(x):
        xs = [_py(v) for v in _plain(x).ravel()]
        if len(xs) != n:
            raise ValueError(f"{name}: expected {n} inputs, got {len(xs)}")
        rows = [[dF[i][j](*xs) for j in range(n)] for i in range(m)]
        out = ctx.array(rows[0]) if scalar else ctx.array(rows)
        if log is not None:
            log.append(("jac", xs, out, [v for r in rows for v in r]))
        return out

    return func, jac, F, dF


def elems(a):
    """Flat python list of the elements of an array-like (symbolic or not)."""
    if isinstance(a, np.ndarray):
        return [_py(v) for v in _plain(a).ravel()]
    if isinstance(a, (list, tuple)):
        return [_py(v) for v in a]
    return [_py(a)]


def shape_of(a):
    return tuple(np.shape(a))


def check_shape(ctx, label, a, shape):
    ctx.check(f"{label}:shape {shape_of(a)} == {tuple(shape)}", ctx.true() if shape_of(a) == tuple(shape) else ctx.false())
    return shape_of(a) == tuple(shape)


def check_array(ctx, label, got, expected_rows):
    """``got`` must have the shape of the nested list ``expected_rows`` and equal it component-wise."""
    exp = np.empty(np.shape(np.array([[0 for _ in r] for r in expected_rows]) if expected_rows and isinstance(expected_rows[0], (list, tuple)) else np.zeros(len(expected_rows))), dtype=object)
    if exp.ndim == 2:
        for i, r in enumerate(expected_rows):
            for j, v in enumerate(r):
                exp[i, j] = v
    else:
        for i, v in enumerate(expected_rows):
            exp[i] = v
    if not check_shape(ctx, label, got, exp.shape):
        return
    g = _plain(got) if isinstance(got, np.ndarray) else np.asarray(got, dtype=object)
    for idx in np.ndindex(exp.shape):
        ctx.check(f"{label}{list(idx)}", ctx.eq(_py(g[idx]), exp[idx]))


def subsets(items, min_size=1):
    items = list(items)
    for k in range(min_size, len(items) + 1):
        yield from itertools.combinations(items, k)


def install_hash_stub(ctx):
    """Every symbolic key collides, so dict lookups are decided by the real ``__eq__``."""
    if not ctx.symbolic:
        return
    import gemseo.algos.hashable_ndarray as hn
    import gemseo.caches.utils as cu

    real_hn = hn.xxh3_64_hexdigest
    real_cu = cu.xxh3_64_hexdigest

    def stub_factory(real):
        def stub(data, *a, **k):
            if isinstance(data, HashToken):
                return "0" * 16
            return real(data, *a, **k)

        return stub

    ctx.patch(hn, "xxh3_64_hexdigest", stub_factory(real_hn))
    ctx.patch(cu, "xxh3_64_hexdigest", stub_factory(real_cu))


def check_log_untouched(ctx, log, label="operand-untouched"):
    """Every array an operand returned still holds the terms the operand computed (no in-place modification)."""
    for k, (kind, xs, out, orig) in enumerate(log):
        if isinstance(out, np.ndarray):
            now = elems(out)
            for i, (a, b) in enumerate(zip(now, orig)):
                ctx.check(f"{label}:{kind}#{k}[{i}]", ctx.eq(a, b))


# ------------------------------------------------------------------------------------------------
# design spaces with symbolic bounds
# ------------------------------------------------------------------------------------------------
INF = float("inf")
KINDS = {"B": "bounded l<u (symbolic)", "E": "equal bounds l==u (symbolic)", "U": "unbounded", "L": "lower bound only", "R": "upper bound only",
         "C": "bounded, concrete [-1, 3]", "D": "bounded, concrete [1/2, 2]"}
CONCRETE = {"C": (-1.0, 3.0), "D": (0.5, 2.0)}


class SpaceInfo:
    """Oracle-side description of a design space built by :func:`build_space` (flat, in variable order)."""

    def __init__(self):
        self.names, self.sizes, self.lb, self.ub, self.kind, self.is_int = [], [], [], [], [], []

    @property
    def n(self):
        return len(self.lb)

    def normalized(self, j, int_norm=False):
        """Component j is mapped onto [0,1] iff both bounds are finite and it is a float (or integer normalization is on)."""
        return self.kind[j] in ("B", "E", "C", "D") and (not self.is_int[j] or int_norm)

    def phys(self, ctx, xn, int_norm=False, rounding=True):
        """Physical point of a normalized point (explicit per-component formula)."""
        out = []
        for j in range(self.n):
            v = xn[j]
            if self.normalized(j, int_norm):
                v = self.lb[j] + v * (self.ub[j] - self.lb[j])
            if self.is_int[j] and rounding:
                v = rint(ctx, v)
            out.append(v)
        return out

    def scale(self, j, int_norm=False):
        return (self.ub[j] - self.lb[j]) if self.normalized(j, int_norm) else 1.0


def rint(ctx, v):
    from symgem.core import sym_rint

    return sym_rint(v) if ctx.symbolic else float(np.rint(v))


def build_space(ctx, layout, prefix="", assume_order=True, ds=None, info=None):
    """Build a real ``DesignSpace`` from ``layout`` = [(name, "float"|"integer", kinds or int-bounds), ...].

    Float variables: ``kinds`` is a string over B,E,U,L,R (one letter per component); finite bounds are symbolic
    reals with ``l < u`` (B) or ``l == u`` (E).  Integer variables: a list of concrete (lb, ub) integer pairs.
    Symbolically the bounds are written into ``Variable.__dict__`` (pydantic validation needs machine numbers);
    concretely the public ``add_variable`` is used with the model values.

    ``ds`` / ``info``: an existing space (e.g. a ``ParameterSpace``) and its description to which the variables of
    ``layout`` are appended (C19); by default a new ``DesignSpace`` is created.
    """
    from gemseo.algos.design_space import DesignSpace

    ds = DesignSpace() if ds is None else ds
    info = SpaceInfo() if info is None else info
    for name, typ, spec in layout:
        size = len(spec)
        lbs, ubs, kinds = [], [], []
        if typ == "integer":
            for (a, b) in spec:
                lbs.append(float(a))
                ubs.append(float(b))
                kinds.append("B" if a < b else "E")
            ds.add_variable(name, size=size, type_="integer", lower_bound=np.array(lbs), upper_bound=np.array(ubs))
        else:
            for c, k in enumerate(spec):
                if k in CONCRETE:
                    lbs.append(CONCRETE[k][0])
                    ubs.append(CONCRETE[k][1])
                    kinds.append(k)
                    continue
                l = ctx.real(f"{prefix}l_{name}{c}") if k in "BEL" else -INF
                if k == "E":
                    u = l
                elif k in "BR":
                    u = ctx.real(f"{prefix}u_{name}{c}")
                else:
                    u = INF
                if k == "B" and assume_order:
                    ctx.assume(l < u)
                lbs.append(l)
                ubs.append(u)
                kinds.append(k)
            if ctx.symbolic:
                ph_l = np.array([0.0 if k in "BELCD" else -INF for k in spec])
                ph_u = np.array([(1.0 if k != "E" else 0.0) if k in "BERCD" else INF for k in spec])
                ds.add_variable(name, size=size, lower_bound=ph_l, upper_bound=ph_u)
                var = ds._variables[name]
                var.__dict__["lower_bound"] = SymArray(lbs)
                var.__dict__["upper_bound"] = SymArray(ubs)
            else:
                ds.add_variable(name, size=size, lower_bound=np.array(lbs, dtype=float), upper_bound=np.array(ubs, dtype=float))
        info.names.append(name)
        info.sizes.append(size)
        info.lb += lbs
        info.ub += ubs
        info.kind += kinds
        info.is_int += [typ == "integer"] * size
    return ds, info


def install_np_array_stub(ctx):
    """``HashableNdarray`` copies its key with ``numpy.array``: keep the SymArray subclass (value-preserving copy)."""
    if not ctx.symbolic:
        return
    import gemseo.algos.hashable_ndarray as hn

    def np_array(a, *args, **kw):
        if isinstance(a, SymArray):
            return a.copy()
        return np.array(a, *args, **kw)

    ctx.patch(hn, "np_array", np_array)


def db_items(database):
    """[(key array, outputs dict)] in insertion order."""
    return [(k.wrapped_array, v) for k, v in database.items()]


def exact_const(ctx, v):
    """A finite concrete number as an exact symbolic constant (symbolic mode) so that quotients such as 1/5 stay rational
    instead of becoming the float64 nearest to 0.2; the float itself in concrete mode."""
    if not ctx.symbolic:
        return float(v)
    from symgem.core import SymReal, lift

    return SymReal(lift(v))


def exact_bounds(ctx, ds, info):
    """Replace the concrete finite bounds of ``ds`` (built by :func:`build_space`) by exact symbolic constants.

    Same stub as in build_space (bounds written into ``Variable.__dict__``), value-preserving; ``info`` is updated alike.
    """
    if not ctx.symbolic:
        return
    off = 0
    for name, size in zip(info.names, info.sizes):
        var = ds._variables[name]
        for attr, lst in (("lower_bound", info.lb), ("upper_bound", info.ub)):
            vals = []
            changed = False
            for c in range(size):
                v = lst[off + c]
                if isinstance(v, (int, float, np.integer, np.floating)) and np.isfinite(v):
                    v = exact_const(ctx, v)
                    lst[off + c] = v
                    changed = True
                vals.append(v)
            if changed:
                var.__dict__[attr] = SymArray(vals)
        off += size
