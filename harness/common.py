"""Helpers shared by the per-property harnesses."""
from __future__ import annotations

import itertools

import numpy as np

from symgem.core import HashToken, SymArray, Unsupported, has_sym, _plain, _py  # noqa: F401


def uf_function(ctx, name, m, n, scalar=False, log=None):
    """An uninterpreted function R^n -> R^m and its (independent) uninterpreted Jacobian.

    Returns ``(func, jac, F, dF)``: ``func``/``jac`` are what the code under test calls (array in, array out),
    ``F[i](*x)``/``dF[i][j](*x)`` are the scalar symbols for the oracle.  ``log`` collects (kind, x, returned array, flat list of the terms it was built from).
    """
    F = [ctx.uf(f"{name}_{i}", n) for i in range(m)]
    dF = [[ctx.uf(f"d{name}_{i}_{j}", n) for j in range(n)] for i in range(m)]

    def func(x):
        xs = [_py(v) for v in np.asarray(x).ravel()] if not isinstance(x, np.ndarray) else [_py(v) for v in _plain(x).ravel()]
        if len(xs) != n:
            raise ValueError(f"{name}: expected {n} inputs, got {len(xs)}")
        vals = [f(*xs) for f in F]
        out = vals[0] if scalar else ctx.array(vals)
        if log is not None:
            log.append(("func", xs, out, list(vals)))
        return out

    def jac(x):
        xs = [_py(v) for v in _plain(x).ravel()]
        if len(xs) != n:
            raise ValueError(f"{name}: expected {n} inputs, got {len(xs)}")
        rows = [[dF[i][j](*xs) for j in range(n)] for i in range(m)]
        out = ctx.array(rows[0]) if scalar else ctx.array(rows)
        if log is not None:
            log.append(("jac", xs, out, [v for r in rows for v in r]))
        return out

    return func, jac, F, dF


def elems(a):
    """Flat python list of the elements of an array-like (symbolic or not)."""
    if isinstance(a, np.ndarray):
        return [_py(v) for v in _plain(a).ravel()]
    if isinstance(a, (list, tuple)):
        return [_py(v) for v in a]
    return [_py(a)]


def shape_of(a):
    return tuple(np.shape(a))


def check_shape(ctx, label, a, shape):
    ctx.check(f"{label}:shape {shape_of(a)} == {tuple(shape)}", ctx.true() if shape_of(a) == tuple(shape) else ctx.false())
    return shape_of(a) == tuple(shape)


def check_array(ctx, label, got, expected_rows):
    """``got`` must have the shape of the nested list ``expected_rows`` and equal it component-wise."""
    exp = np.empty(np.shape(np.array([[0 for _ in r] for r in expected_rows]) if expected_rows and isinstance(expected_rows[0], (list, tuple)) else np.zeros(len(expected_rows))), dtype=object)
    if exp.ndim == 2:
        for i, r in enumerate(expected_rows):
            for j, v in enumerate(r):
                exp[i, j] = v
    else:
        for i, v in enumerate(expected_rows):
            exp[i] = v
    if not check_shape(ctx, label, got, exp.shape):
        return
    g = _plain(got) if isinstance(got, np.ndarray) else np.asarray(got, dtype=object)
    for idx in np.ndindex(exp.shape):
        ctx.check(f"{label}{list(idx)}", ctx.eq(_py(g[idx]), exp[idx]))


def subsets(items, min_size=1):
    items = list(items)
    for k in range(min_size, len(items) + 1):
        yield from itertools.combinations(items, k)


def install_hash_stub(ctx):
    """Every symbolic key collides, so dict lookups are decided by the real ``__eq__``."""
    if not ctx.symbolic:
        return
    import gemseo.algos.hashable_ndarray as hn
    import gemseo.caches.utils as cu

    real_hn = hn.xxh3_64_hexdigest
    real_cu = cu.xxh3_64_hexdigest

    def stub_factory(real):
        def stub(data, *a, **k):
            if isinstance(data, HashToken):
                return "0" * 16
            return real(data, *a, **k)

        return stub

    ctx.patch(hn, "xxh3_64_hexdigest", stub_factory(real_hn))
    ctx.patch(cu, "xxh3_64_hexdigest", stub_factory(real_cu))


def check_log_untouched(ctx, log, label="operand-untouched"):
    """Every array an operand returned still holds the terms the operand computed (no in-place modification)."""
    for k, (kind, xs, out, orig) in enumerate(log):
        if isinstance(out, np.ndarray):
            now = elems(out)
            for i, (a, b) in enumerate(zip(now, orig)):
                ctx.check(f"{label}:{kind}#{k}[{i}]", ctx.eq(a, b))
