"""C09 - composite processes differentiate by the exact chain rule.

Real code under test: ``MDOChain._execute/_compute_jacobian/reverse_chain_rule/_compute_diff_in_outs``,
``traverse_add_diff_io``, ``MDOParallelChain``/``MDOAdditiveChain._execute/_compute_jacobian``,
``Discipline.linearize/_init_jacobian/add_differentiated_inputs/outputs``, ``MDAChain`` (chain linearization) on acyclic
systems.  Leaf disciplines are fully uninterpreted (``harness.disc``); the oracle is a forward accumulation over the
process tree written with explicit scalar loops.
"""
from __future__ import annotations

import sys

import numpy as np

from harness.common import _plain, _py, subsets
from harness.disc import make_discipline, to_list

META = dict(
    bounds=dict(
        quick="25 process templates with <= 4 uninterpreted leaf disciplines, variable sizes in {1,2}: chain of 3, diamond, fan-in, fan-out, "
              "variable overwritten by a later discipline (overwrite_rw, overwrite_rw2, overwrite_w, overwrite_late), chain input that is also a later output "
              "(pass_w, pass_rw, pass_dead, pass_first), MDOParallelChain (parallel, parallel_dup), MDOAdditiveChain (additive_all, additive, additive2), "
              "nested processes (chain in parallel chain in chain: nested_a, nested_b; chain in chain; additive chain in chain), "
              "MDAChain(chain_linearize=True) on acyclic systems in several listing orders (mda_*); "
              "first request = any non-empty subset of the process inputs x any non-empty subset of size <= 2 (or all) of the process outputs, chosen by the solver, "
              "or compute_all_jacobians=True; second request on the same object = one more input and/or one more output (or none, or compute_all_jacobians=True) "
              "at a second symbolic point or at the same point; leaf disciplines filling all blocks or only the requested ones; values after execute() or after linearize()",
        thorough="same templates, first request over all non-empty output subsets, second request over all single additions, plus explicit comparison with a fresh process",
    ),
    outside=[
        "sparse / JacobianOperator partial derivatives of the leaf disciplines (scipy.sparse cannot hold symbols)",
        "approximated derivatives (C16)", "strongly coupled (cyclic) MDAs (C06) and MDAChain's default coupled-adjoint linearization "
        "(chain_linearize=False goes through JacobianAssembly and scipy.sparse.linalg, which cannot run on symbols)",
        "thread/process back-ends of MDOParallelChain other than one worker (n_processes=1)", "caches of the processes (C05): every discipline and process has cache NONE",
        "the type (dense vs scipy.sparse) of the returned zero blocks: a block is compared through its dense form",
        "blocks that were not requested (the returned dictionary may or may not hold them)",
    ],
    stubs=["gemseo.core.discipline.discipline.csr_array -> dense object-dtype zeros of the same shape (symbolic mode only; value-preserving)",
           "callable_parallel_execution.traceback -> recorder (an engine exception swallowed by the worker loop is re-raised in the harness)"],
    assumptions=["leaf outputs are uninterpreted functions of the flattened inputs, their partial derivatives independent uninterpreted functions of the same point",
                 "only names of the process input/output grammars are requested (add_differentiated_inputs/outputs + linearize, or compute_all_jacobians=True)",
                 "requests accumulate (add_differentiated_* is a union): the second call must return every block of the union of both requests"],
)

EXPLORER_OPTS = {"quick": dict(max_paths=20000, wall_budget_s=400.0), "thorough": dict(max_paths=200000, wall_budget_s=3000.0)}


# ------------------------------------------------------------------------------------------------
# process templates: ("leaf", name, {in: size}, {out: size}) | ("chain", [..]) | ("par", [..]) | ("add", [..], [summed outputs])
#                    | ("mda", [leaves in a topological order], listing permutation)
# ------------------------------------------------------------------------------------------------
def L(name, ins, outs):
    return ("leaf", name, ins, outs)


TEMPLATES = {
    # chain of three with an independent side input: dc/du through d2 only, da/du is a zero block
    "chain3": ("chain", [L("d1", {"x": 2}, {"a": 1}), L("d2", {"a": 1, "u": 1}, {"b": 2}), L("d3", {"b": 2}, {"c": 1})]),
    "diamond": ("chain", [L("d1", {"x": 2}, {"a": 1}), L("d2", {"a": 1}, {"b": 2}), L("d3", {"a": 1, "u": 1}, {"c": 1}),
                          L("d4", {"b": 2, "c": 1}, {"y": 1})]),
    "fanin": ("chain", [L("d1", {"x": 1}, {"a": 2}), L("d2", {"u": 2}, {"b": 1}), L("d3", {"a": 2, "b": 1}, {"y": 1})]),
    "fanout": ("chain", [L("d1", {"x": 2}, {"a": 1}), L("d2", {"a": 1}, {"b": 1}), L("d3", {"a": 1, "x": 2}, {"c": 2})]),
    # y is produced by d1 and overwritten by d2, which reads it
    "overwrite_rw": ("chain", [L("d1", {"x": 1}, {"y": 2}), L("d2", {"y": 2}, {"y": 2}), L("d3", {"y": 2, "x": 1}, {"z": 1})]),
    # y is produced by d1 and overwritten by d2, which does not read it (d1's y is dead)
    "overwrite_w": ("chain", [L("d1", {"x": 1}, {"y": 1}), L("d2", {"u": 1}, {"y": 1}), L("d3", {"y": 1}, {"z": 2})]),
    # y is produced by d1, used by d2, then overwritten by d3
    "overwrite_late": ("chain", [L("d1", {"x": 2}, {"y": 1}), L("d2", {"y": 1}, {"z": 1}), L("d3", {"z": 1, "x": 2}, {"y": 1})]),
    # the chain input x is also the output of a later discipline
    "pass_w": ("chain", [L("d1", {"x": 2}, {"y": 1}), L("d2", {"y": 1}, {"x": 2})]),
    "pass_rw": ("chain", [L("d1", {"x": 1}, {"y": 2}), L("d2", {"x": 1, "y": 2}, {"x": 1}), L("d3", {"x": 1, "u": 1}, {"z": 1})]),
    # the chain input x is read by d1, then overwritten by d2 (which does not read it), then read by d3
    "pass_dead": ("chain", [L("d1", {"x": 1}, {"a": 2}), L("d2", {"u": 1}, {"x": 1}), L("d3", {"x": 1}, {"y": 1})]),
    # d2 reads b and writes both a and b
    "overwrite_rw2": ("chain", [L("d1", {"x": 1}, {"b": 1}), L("d2", {"b": 1}, {"a": 1, "b": 1}), L("d3", {"a": 1, "b": 1}, {"z": 1})]),
    "pass_first": ("chain", [L("d1", {"x": 2, "u": 1}, {"x": 2}), L("d2", {"x": 2}, {"y": 1})]),
    "parallel": ("par", [L("d1", {"x": 2}, {"a": 1}), L("d2", {"x": 2, "u": 1}, {"b": 2}), L("d3", {"u": 1}, {"c": 1})]),
    # two disciplines of a parallel chain produce y: the last one defines the value
    "parallel_dup": ("par", [L("d1", {"x": 1}, {"y": 2}), L("d2", {"u": 1}, {"y": 2, "c": 1})]),
    # every output is summed, every discipline computes it (the only additive layout in which every request can be served, see the report)
    "additive_all": ("add", [L("d1", {"x": 2}, {"s": 2}), L("d2", {"x": 2, "u": 1}, {"s": 2}), L("d3", {"u": 1}, {"s": 2})], ["s"]),
    "additive": ("add", [L("d1", {"x": 2}, {"s": 2, "a": 1}), L("d2", {"x": 2, "u": 1}, {"s": 2}), L("d3", {"u": 1}, {"s": 2, "c": 1})], ["s"]),
    "additive2": ("add", [L("d1", {"x": 1}, {"s": 1, "t": 2}), L("d2", {"x": 1, "u": 2}, {"s": 1, "t": 2}), L("d3", {"w": 1}, {"c": 1})], ["s", "t"]),
    # chain nested in a parallel chain nested in a chain
    "nested_a": ("chain", [L("d1", {"x": 2}, {"a": 1}),
                           ("par", [("chain", [L("d2", {"a": 1}, {"b": 2}), L("d3", {"b": 2, "u": 1}, {"c": 1})]), L("d4", {"a": 1, "u": 1}, {"e": 1})])]),
    "nested_b": ("chain", [("par", [("chain", [L("d1", {"x": 1}, {"a": 2}), L("d2", {"a": 2}, {"b": 1})]), L("d3", {"x": 1, "u": 1}, {"c": 1})]),
                           L("d4", {"b": 1, "c": 1}, {"y": 2})]),
    # chain nested in a chain, additive chain nested in a chain
    "nested_c": ("chain", [L("d1", {"x": 1}, {"a": 1}), ("chain", [L("d2", {"a": 1, "u": 2}, {"b": 1}), L("d3", {"b": 1}, {"c": 2})]), L("d4", {"c": 2, "a": 1}, {"y": 1})]),
    "nested_add": ("chain", [L("d1", {"x": 2}, {"a": 1}), ("add", [L("d2", {"a": 1}, {"s": 1}), L("d3", {"a": 1, "u": 1}, {"s": 1, "e": 1})], ["s"]),
                             L("d4", {"s": 1}, {"y": 1})]),
    # MDAChain on acyclic systems (leaves in a topological order; the second entry is the order in which they are listed)
    "mda_diamond": ("mda", [L("d1", {"x": 2}, {"a": 1}), L("d2", {"a": 1}, {"b": 2}), L("d3", {"a": 1, "u": 1}, {"c": 1}), L("d4", {"b": 2, "c": 1}, {"y": 1})], [0, 1, 2, 3]),
    "mda_diamond_rev": ("mda", [L("d1", {"x": 2}, {"a": 1}), L("d2", {"a": 1}, {"b": 2}), L("d3", {"a": 1, "u": 1}, {"c": 1}), L("d4", {"b": 2, "c": 1}, {"y": 1})], [3, 2, 1, 0]),
    "mda_chain3": ("mda", [L("d1", {"x": 1}, {"a": 2}), L("d2", {"a": 2, "u": 1}, {"b": 1}), L("d3", {"b": 1, "x": 1}, {"c": 1})], [2, 0, 1]),
    "mda_indep": ("mda", [L("d1", {"x": 2}, {"a": 1}), L("d2", {"u": 1}, {"b": 2})], [1, 0]),
}


# ------------------------------------------------------------------------------------------------
# oracle: names, sizes, values and total derivatives of a template (never touches gemseo)
# ------------------------------------------------------------------------------------------------
def t_subs(t):
    return t[1]


def t_io(t):
    """(inputs {name: size}, outputs {name: size}) of the process described by ``t`` (ordered dicts)."""
    if t[0] == "leaf":
        return dict(t[2]), dict(t[3])
    ins, outs = {}, {}
    for s in t_subs(t):
        si, so = t_io(s)
        for n, sz in si.items():
            if t[0] in ("chain", "mda") and n in outs:
                continue  # produced upstream in the chain: not an input of the chain
            ins.setdefault(n, sz)
        outs.update(so)
    return ins, outs


def _zeros(m, n):
    return [[0.0] * n for _ in range(m)]


def _is_zero(v):
    return isinstance(v, (int, float)) and v == 0


def _matmul_acc(acc, B, Dm):
    """acc += B @ Dm with explicit loops (structural zeros skipped)."""
    for k in range(len(B)):
        for j in range(len(B[0])):
            b = B[k][j]
            if _is_zero(b):
                continue
            for c in range(len(Dm[j])):
                d = Dm[j][c]
                if _is_zero(d):
                    continue
                acc[k][c] = acc[k][c] + b * d


def o_eval(t, env, syms, roots):
    """Outputs of process ``t`` started in environment ``env`` = {name: (values, {root: d name / d root})}."""
    kind = t[0]
    if kind == "leaf":
        _, name, ins, outs = t
        sym = syms[name]
        values = {i: env[i][0] for i in ins}
        res = {}
        for o, so in outs.items():
            vals = [sym.value(o, k, values) for k in range(so)]
            D = {}
            for r, sr in roots.items():
                acc = _zeros(so, sr)
                for i in ins:
                    _matmul_acc(acc, sym.block(o, i, values), env[i][1][r])
                D[r] = acc
            res[o] = (vals, D)
        return res
    if kind in ("chain", "mda"):
        loc = dict(env)
        res = {}
        for s in t_subs(t):
            r = o_eval(s, loc, syms, roots)
            loc.update(r)
            res.update(r)
        return res
    parts = [o_eval(s, env, syms, roots) for s in t_subs(t)]
    res = {}
    for p in parts:
        res.update(p)
    if kind == "add":
        for o in t[2]:
            contrib = [p[o] for p in parts if o in p]
            vals = list(contrib[0][0])
            D = {r: [list(row) for row in contrib[0][1][r]] for r in roots}
            for (v2, D2) in contrib[1:]:
                vals = [a + b for a, b in zip(vals, v2)]
                for r in roots:
                    D[r] = [[a + b for a, b in zip(ra, rb)] for ra, rb in zip(D[r], D2[r])]
            res[o] = (vals, D)
    return res


def oracle(t, point, syms):
    """({output: values}, {output: {input: block}}) of the whole process at ``point`` = {input: [scalars]}."""
    roots, _ = t_io(t)
    env = {}
    for r, sr in roots.items():
        D = {q: _zeros(sr, sq) for q, sq in roots.items()}
        for k in range(sr):
            D[r][k][k] = 1.0
        env[r] = (list(point[r]), D)
    res = o_eval(t, env, syms, roots)
    return {o: v for o, (v, _) in res.items()}, {o: D for o, (_, D) in res.items()}


# ------------------------------------------------------------------------------------------------
# the real processes
# ------------------------------------------------------------------------------------------------
_LEAF_CACHE = [None]


def build(ctx, t, log, syms, jac_mode, counter):
    from gemseo.core.chains.additive_chain import MDOAdditiveChain
    from gemseo.core.chains.chain import MDOChain
    from gemseo.core.chains.parallel_chain import MDOParallelChain
    from gemseo.core.discipline import Discipline

    kind = t[0]
    if kind == "leaf":
        d = make_discipline(ctx, t[1], t[2], t[3], log=log, jac_mode=jac_mode)
        if _LEAF_CACHE[0] == "simple":
            # gemseo's default cache policy: a leaf then serves its previous outputs/Jacobian when it is asked again at the same point
            d.set_cache(Discipline.CacheType.SIMPLE)
        syms[t[1]] = d.sym
        return d
    subs = [build(ctx, s, log, syms, jac_mode, counter) for s in t_subs(t)]
    counter[0] += 1
    name = f"{kind}{counter[0]}"
    if kind == "chain":
        p = MDOChain(subs, name=name)
    elif kind == "par":
        p = MDOParallelChain(subs, name=name, n_processes=1)
    elif kind == "add":
        p = MDOAdditiveChain(subs, t[2], name=name, n_processes=1)
    elif kind == "mda":
        from gemseo.mda.mda_chain import MDAChain

        p = MDAChain([subs[k] for k in t[2]], chain_linearize=True, name=name)
        for q in [p.mdo_chain, *p.mdo_chain.disciplines]:
            q.set_cache(Discipline.CacheType.NONE)
    else:
        raise ValueError(kind)
    p.set_cache(Discipline.CacheType.NONE)
    return p


class _TracebackRecorder:
    """Stands for the ``traceback`` module in gemseo's worker loop, which swallows every BaseException."""

    def __init__(self):
        self.seen = []

    def print_exc(self, *a, **k):
        self.seen.append(sys.exc_info()[1])


def _install_stubs(ctx):
    import gemseo.core.parallel_execution.callable_parallel_execution as cpe

    rec = _TracebackRecorder()
    ctx.patch(cpe, "traceback", rec, symbolic_only=False)
    if ctx.symbolic:
        import gemseo.core.discipline.discipline as dmod
        from symgem.core import SymArray

        def dense_zeros(shape, *a, **k):
            z = np.empty(shape, dtype=object)
            z[...] = 0.0
            return SymArray(z)

        ctx.patch(dmod, "csr_array", dense_zeros)
    return rec


def _reraise_swallowed(rec):
    """An engine exception (path abort, unsupported operation, budget) must not be swallowed by gemseo's worker loop."""
    for e in rec.seen:
        if not isinstance(e, Exception):
            raise e


def dense(b):
    """Dense ndarray view of a returned block (zero blocks may come back as scipy.sparse arrays)."""
    if hasattr(b, "toarray"):
        return b.toarray()
    return b


def check_block(ctx, label, got, exp):
    m, n = len(exp), len(exp[0])
    got = dense(got)
    shp = tuple(np.shape(got))
    if shp != (m, n):
        ctx.check(f"{label}:shape {shp} != {(m, n)}", ctx.false())
        return
    g = _plain(got) if isinstance(got, np.ndarray) else np.asarray(got, dtype=object)
    for k in range(m):
        for j in range(n):
            ctx.check(f"{label}[{k},{j}]", ctx.eq(_py(g[k, j]), exp[k][j]))


def check_request(ctx, label, jac, D, O, I):
    """Every block of the request is present, has shape (n_out, n_in) and equals the oracle block."""
    for o in O:
        row = jac.get(o) if hasattr(jac, "get") else None
        if row is None:
            ctx.check(f"{label}: no Jacobian for output {o}", ctx.false())
            continue
        for i in I:
            blk = row.get(i)
            if blk is None:
                ctx.check(f"{label}: no block d{o}/d{i}", ctx.false())
                continue
            ctx.observe(f"{label} d{o}/d{i}", np.ravel(dense(blk)))
            check_block(ctx, f"{label} d{o}/d{i}", blk, D[o][i])


def _snapshot(jac, O, I):
    """Copies of the requested blocks (the process owns and may later mutate the returned dictionary)."""
    snap = {}
    for o in O:
        for i in I:
            try:
                snap[(o, i)] = dense(jac[o][i]).copy()
            except (KeyError, TypeError):
                pass
    return snap


def _candidates(items, max_size=None):
    return [list(s) for s in subsets(items) if max_size is None or len(s) <= max_size or len(s) == len(items)]


def _choose(ctx, name, items, max_size=None, fixed=None):
    """A non-empty subset chosen by the solver (or the ``fixed``-th one when the configuration pins it to spread the work)."""
    cands = _candidates(items, max_size)
    if fixed is not None:
        return cands[fixed]
    return cands[ctx.choice(name, len(cands))]


def _point(ctx, prefix, roots):
    arrays = {r: ctx.reals(f"{prefix}_{r}", sr) for r, sr in roots.items()}
    scal = {r: [ctx.real(f"{prefix}_{r}{k}") for k in range(sr)] for r, sr in roots.items()}
    return arrays, scal


def h_linearize(ctx, cfg):
    t = TEMPLATES[cfg["topo"]]
    pre = cfg["topo"] + ": "  # labels name the template so that findings can be keyed by it
    rec = _install_stubs(ctx)
    _LEAF_CACHE[0] = cfg.get("leaf_cache")
    roots, outs = t_io(t)
    log, syms = [], {}
    proc = build(ctx, t, log, syms, cfg.get("jac_mode", "all"), [0])

    # the process exposes the inputs/outputs the composition defines (extra bookkeeping outputs such as the MDA residual norm are ignored)
    ctx.check(pre + f"process inputs {sorted(proc.io.input_grammar)} == {sorted(roots)}",
              ctx.true() if set(proc.io.input_grammar) == set(roots) else ctx.false())
    ctx.check(pre + f"process outputs {sorted(proc.io.output_grammar)} contain {sorted(outs)}",
              ctx.true() if set(outs) <= set(proc.io.output_grammar) else ctx.false())

    x1, x1s = _point(ctx, "p", roots)
    val1, D1 = oracle(t, x1s, syms)

    # ---- executed values -------------------------------------------------------------------
    if cfg.get("pre_execute", True):
        data = proc.execute(x1)
        _reraise_swallowed(rec)
        for o, so in outs.items():
            got = data.get(o)
            if got is None:
                ctx.check(pre + f"value {o} missing after execute", ctx.false())
                continue
            ctx.observe(f"value {o}", np.ravel(got))
            gl = to_list(got)
            if len(gl) != so:
                ctx.check(pre + f"value {o}: size {len(gl)} != {so}", ctx.false())
                continue
            for k in range(so):
                ctx.check(pre + f"value {o}[{k}]", ctx.eq(gl[k], val1[o][k]))

    # ---- first request ---------------------------------------------------------------------
    if cfg["req1"] == "all":
        I1, O1 = list(roots), list(outs)
        jac = proc.linearize(x1, compute_all_jacobians=True)
    else:
        I1 = _choose(ctx, "I1", list(roots), fixed=cfg.get("I1"))
        O1 = _choose(ctx, "O1", list(outs), cfg.get("max_out", 2))
        proc.add_differentiated_inputs(I1)
        proc.add_differentiated_outputs(O1)
        jac = proc.linearize(x1)
    _reraise_swallowed(rec)
    check_request(ctx, pre + "req1", jac, D1, O1, I1)
    if not cfg.get("pre_execute", True):
        for o, so in outs.items():
            if o in roots:
                continue  # linearize() resets an input that is also an output to its input value
            got = proc.io.data.get(o)
            if got is None:
                ctx.check(pre + f"value {o} missing after linearize", ctx.false())
                continue
            gl = to_list(got)
            for k in range(min(so, len(gl))):
                ctx.check(pre + f"value {o}[{k}]", ctx.eq(gl[k], val1[o][k]))
    snap1 = _snapshot(jac, O1, I1)

    # ---- second request on the same object -------------------------------------------------
    req2 = cfg.get("req2", "none")
    if req2 != "none":
        same_point = cfg.get("same_point", False)
        if same_point:
            x2, x2s = x1, x1s
            D2 = D1
        else:
            x2, x2s = _point(ctx, "q", roots)
            _, D2 = oracle(t, x2s, syms)
        if req2 == "all":
            I2, O2 = list(roots), list(outs)
            jac2 = proc.linearize(x2, compute_all_jacobians=True)
        else:
            # one more input and/or one more output than already registered (index len(..) = nothing more; then the request is repeated).
            # add_differentiated_* accumulate; after compute_all_jacobians=True nothing is registered yet.
            base_I, base_O = ([], []) if cfg["req1"] == "all" else (list(I1), list(O1))
            ki = ctx.choice("I2", len(roots) + 1)
            ko = ctx.choice("O2", len(outs) + 1)
            extra_I = [list(roots)[ki]] if ki < len(roots) and list(roots)[ki] not in base_I else []
            extra_O = [list(outs)[ko]] if ko < len(outs) and list(outs)[ko] not in base_O else []
            if not base_I and not extra_I:
                extra_I = [list(roots)[0]]
            if not base_O and not extra_O:
                extra_O = [list(outs)[-1]]
            I2, O2 = base_I + extra_I, base_O + extra_O
            if extra_I:  # (an empty list would mean "all inputs")
                proc.add_differentiated_inputs(extra_I)
            if extra_O:
                proc.add_differentiated_outputs(extra_O)
            jac2 = proc.linearize(x2)
        _reraise_swallowed(rec)
        check_request(ctx, pre + "req2", jac2, D2, O2, I2)
        if same_point:
            # blocks of the smaller request equal the corresponding blocks of the larger one
            for (o, i), b in snap1.items():
                if o in jac2 and i in jac2[o] and tuple(np.shape(dense(jac2[o][i]))) == tuple(b.shape):
                    ctx.check_eq(pre + f"req1 block d{o}/d{i} unchanged in req2", dense(jac2[o][i]), b)
        if cfg.get("fresh", False):
            # the same (union) request on a fresh process object
            log_f, syms_f = [], {}
            fresh = build(ctx, t, log_f, syms_f, cfg.get("jac_mode", "all"), [100])
            if req2 == "all":
                jf = fresh.linearize(x2, compute_all_jacobians=True)
            else:
                fresh.add_differentiated_inputs(I2)
                fresh.add_differentiated_outputs(O2)
                jf = fresh.linearize(x2)
            _reraise_swallowed(rec)
            for o in O2:
                for i in I2:
                    try:
                        a, b = dense(jac2[o][i]), dense(jf[o][i])
                    except (KeyError, TypeError):
                        ctx.check(pre + f"fresh/second: block d{o}/d{i} missing", ctx.false())
                        continue
                    if tuple(np.shape(a)) != tuple(np.shape(b)):
                        ctx.check(pre + f"fresh/second: shape of d{o}/d{i} differs", ctx.false())
                        continue
                    ctx.check_eq(pre + f"second request d{o}/d{i} == fresh process", a, b)

    # ---- the caller's arrays still hold the requested point ----------------------------------
    for r, sr in roots.items():
        now = to_list(x1[r])
        for k in range(sr):
            ctx.check(pre + f"input {r}[{k}] untouched", ctx.eq(now[k], x1s[r][k]))


# ------------------------------------------------------------------------------------------------
KNOWN_DEFECTIVE = ("overwrite_rw", "overwrite_rw2", "pass_rw", "pass_first", "overwrite_w", "pass_dead")


def configs(tier):
    out = []
    quick = tier == "quick"
    for topo, t in TEMPLATES.items():
        h = f"lin:{topo}"
        n_i1 = len(_candidates(list(t_io(t)[0])))
        max_out = 2 if quick else None
        # single requests (every non-empty input subset x output subsets), leaf disciplines filling all / only the requested blocks
        out.append((h, dict(topo=topo, req1="choice", req2="none", max_out=max_out, jac_mode="all")))
        if topo not in KNOWN_DEFECTIVE:
            out.append((h, dict(topo=topo, req1="choice", req2="none", max_out=max_out, jac_mode="requested", pre_execute=False)))
        out.append((h, dict(topo=topo, req1="all", req2="none")))
        if topo in KNOWN_DEFECTIVE:
            # these templates hit the recorded defects of MDOChain (known_findings.json: read-write / overwritten variables): the
            # single-request configurations above exhibit them; histories on them only multiply the same counterexamples
            continue
        # histories of two requests on the same object (the first input subset is pinned per configuration to spread the work)
        for i1 in range(n_i1):
            out.append((h, dict(topo=topo, req1="choice", I1=i1, req2="add", max_out=1 if quick else 2, jac_mode="all", pre_execute=False)))
            out.append((h, dict(topo=topo, req1="choice", I1=i1, req2="add", max_out=1, jac_mode="requested", same_point=True, pre_execute=False)))
            if not quick or topo in ("diamond", "nested_a", "additive", "pass_w"):
                out.append((h, dict(topo=topo, req1="choice", I1=i1, req2="add", max_out=1, fresh=True, pre_execute=False)))
        out.append((h, dict(topo=topo, req1="choice", req2="all", max_out=1 if quick else 2, pre_execute=False)))
        out.append((h, dict(topo=topo, req1="all", req2="add", same_point=True, pre_execute=False)))
        if topo in ("additive", "additive2", "additive_all", "nested_add", "chain3", "diamond", "parallel", "nested_a"):
            # leaves with gemseo's default SimpleCache, second request at the SAME point: a cached leaf Jacobian must not have been
            # modified by the first request
            for i1 in range(n_i1):
                out.append((h, dict(topo=topo, req1="choice", I1=i1, req2="add", max_out=1, jac_mode="all", same_point=True,
                                    pre_execute=False, leaf_cache="simple")))
            out.append((h, dict(topo=topo, req1="choice", req2="all", max_out=1, same_point=True, pre_execute=False, leaf_cache="simple")))
    return out


HARNESSES = {f"lin:{topo}": h_linearize for topo in TEMPLATES}  # one harness name per template: ./check C09 --only "lin:(chain3|diamond)$"
