#!/bin/sh
# setup_cmd: build the overlay venv (offline) used by every check.
# <this dir>/.venv = venv of /venv/bin/python + .pth pointing at /venv's site-packages; z3-solver, crosshair-tool, jsonschema from the wheelhouse.
set -e
cd "$(dirname "$0")"
V="$(pwd)/.venv"
if [ ! -x "$V/bin/python" ] || ! "$V/bin/python" -c "import z3, crosshair, jsonschema" 2>/dev/null; then
  rm -rf "$V"
  /venv/bin/python -m venv "$V"
  printf "/venv/lib/python3.12/site-packages\n" > "$V/lib/python3.12/site-packages/_base.pth"
  PIP_NO_INDEX=1 "$V/bin/pip" install -q --no-index --find-links /opt/veriftools/wheels z3-solver crosshair-tool jsonschema
fi
"$V/bin/python" -c "import z3, crosshair, jsonschema, numpy; print('overlay ok: z3', z3.get_version_string())"
