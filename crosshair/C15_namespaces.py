"""C15 (CrossHair part): the namespace string kernels of ``gemseo.core.namespaces`` on symbolic strings.

Private functions with PEP-316 contracts calling the REAL gemseo functions.  Strings are bounded by ``len <= 4``
(``len <= 3`` where three of them are concatenated).  ``SEP`` is the documented separator; it is spelled
``chr(58)`` so that no contract line contains the character PEP-316 uses after ``pre``/``post``.

Run one of them:  /verif/.venv/bin/python -m symgem.crosshair_run /verif/crosshair/C15_namespaces.py _remove_prefix_single
"""
from __future__ import annotations

from gemseo.core.namespaces import namespaces_separator
from gemseo.core.namespaces import remove_prefix
from gemseo.core.namespaces import split_namespace
from gemseo.core.namespaces import update_namespaces

SEP = chr(58)
assert namespaces_separator == SEP  # the documented separator


def _pairs(mapping) -> set:
    """The (key, value) relation of a namespace mapping whose values are a name or a list of names."""
    out = set()
    for k, vs in mapping.items():
        for v in [vs] if isinstance(vs, str) else vs:
            out.add((k, v))
    return out


# ----------------------------------------------------------------------------------------------------------------
# remove_prefix
# ----------------------------------------------------------------------------------------------------------------
def _remove_prefix_single(ns: str, name: str) -> bool:
    """
    The prefix of ``ns:name`` is removed when the separator is not in ``name`` (``ns`` may itself be nested).

    pre: len(ns) <= 4 and len(name) <= 4
    pre: SEP not in name
    post: __return__
    """
    return list(remove_prefix([ns + SEP + name])) == [name]


def _remove_prefix_without_namespace(name: str) -> bool:
    """
    A name without separator is returned unchanged.

    pre: len(name) <= 4
    pre: SEP not in name
    post: __return__
    """
    return list(remove_prefix([name])) == [name]


def _remove_prefix_elementwise(n1: str, n2: str, ns: str) -> bool:
    """
    Names are processed one by one, in order: one output per input, namespaced or not.

    pre: len(n1) <= 3 and len(n2) <= 3 and len(ns) <= 3
    pre: SEP not in n1 and SEP not in n2
    post: __return__
    """
    return list(remove_prefix([ns + SEP + n1, n2])) == [n1, n2]


def _remove_prefix_never_contains_separator(full: str) -> bool:
    """
    Whatever the data name, what remains contains no separator and is a suffix of the data name.

    pre: len(full) <= 4
    post: __return__
    """
    (out,) = list(remove_prefix([full]))
    return SEP not in out and full.endswith(out)


# ----------------------------------------------------------------------------------------------------------------
# split_namespace
# ----------------------------------------------------------------------------------------------------------------
def _split_join_round_trip(ns: str, name: str) -> bool:
    """
    Splitting ``ns:name`` gives back (ns, name) for a simple (non nested) namespace.

    pre: len(ns) <= 4 and len(name) <= 4
    pre: SEP not in name and SEP not in ns
    post: __return__
    """
    return split_namespace(ns + SEP + name) == [ns, name]


def _split_without_namespace(name: str) -> bool:
    """
    Without namespace prefix the data name is returned.

    pre: len(name) <= 4
    pre: SEP not in name
    post: __return__
    """
    return split_namespace(name) == [name]


def _split_then_join(full: str) -> bool:
    """
    Joining what split_namespace returns with the separator gives back the data name, and its last item is what
    remove_prefix keeps.

    pre: len(full) <= 4
    post: __return__
    """
    parts = split_namespace(full)
    return SEP.join(parts) == full and parts[-1] == list(remove_prefix([full]))[0]


def _split_nested_namespace(ns1: str, ns2: str, name: str) -> bool:
    """
    Documented example: ``my:namespace:a`` -> (``my:namespace``, ``a``).

    (Refuted on the pinned tree, where ``rsplit(sep, -1)`` split at every separator; confirmed since the /repo commit
    "fix: split_namespace splits at the last separator only".)

    pre: len(ns1) <= 3 and len(ns2) <= 3 and len(name) <= 3
    pre: SEP not in name
    post: __return__
    """
    return split_namespace(ns1 + SEP + ns2 + SEP + name) == [ns1 + SEP + ns2, name]


# ----------------------------------------------------------------------------------------------------------------
# update_namespaces  (keys are concrete, the names they are mapped to are symbolic: with symbolic dictionary keys
# CrossHair answered "Not confirmed" within 30 s)
# ----------------------------------------------------------------------------------------------------------------
def _update_namespaces_new_key(v1: str, v2: str) -> bool:
    """
    A key of ``other`` that is not in ``namespaces`` is added with its value; the other entries are kept.

    pre: len(v1) <= 4 and len(v2) <= 4
    post: __return__
    """
    namespaces = {"k": v1}
    other = {"j": v2}
    update_namespaces(namespaces, other)
    return (namespaces["k"] == v1 and namespaces["j"] == v2 and len(namespaces) == 2
            and other["j"] == v2 and len(other) == 1)


def _update_namespaces_same_key(v1: str, v2: str) -> bool:
    """
    When both map the key to a name, the key is mapped to the list of both names, current one first.

    pre: len(v1) <= 4 and len(v2) <= 4
    post: __return__
    """
    namespaces = {"k": v1}
    other = {"k": v2}
    update_namespaces(namespaces, other)
    return namespaces["k"] == [v1, v2] and len(namespaces) == 1 and other["k"] == v2 and len(other) == 1


def _update_namespaces_lists(v1: str, v2: str, v3: str) -> bool:
    """
    Lists of names are extended (list + name, name + list, list + list), order kept, ``other`` untouched.

    pre: len(v1) <= 3 and len(v2) <= 3 and len(v3) <= 3
    post: __return__
    """
    k = "k"
    a = {k: [v1, v2]}
    oa = {k: v3}
    update_namespaces(a, oa)
    b = {k: v1}
    ob = {k: [v2, v3]}
    update_namespaces(b, ob)
    c = {k: [v1]}
    oc = {k: [v2, v3]}
    update_namespaces(c, oc)
    return (a[k] == [v1, v2, v3] and b[k] == [v1, v2, v3] and c[k] == [v1, v2, v3]
            and oa[k] == v3 and ob[k] == [v2, v3] and oc[k] == [v2, v3])
