"""C14 (CrossHair part): ``gemseo.utils.seeder.Seeder`` on symbolic integers.

The documented contract: an explicit seed is returned unchanged; with ``None`` the i-th call returns ``initial_seed + i``
(every call counts).  Same algorithm, settings and seed => same seed handed to the sampler.
"""
from __future__ import annotations

from gemseo.utils.seeder import Seeder


def _explicit_seed_returned(s0: int, seed: int) -> bool:
    """
    pre: -10**6 <= s0 <= 10**6 and -10**6 <= seed <= 10**6
    post: __return__
    """
    return Seeder(s0).get_seed(seed) == seed


def _default_seed_sequence(s0: int) -> bool:
    """
    pre: -10**6 <= s0 <= 10**6
    post: __return__
    """
    seeder = Seeder(s0)
    return [seeder.get_seed(), seeder.get_seed(), seeder.get_seed()] == [s0 + 1, s0 + 2, s0 + 3]


def _explicit_then_default(s0: int, seed: int) -> bool:
    """
    pre: -10**6 <= s0 <= 10**6 and -10**6 <= seed <= 10**6
    post: __return__
    """
    seeder = Seeder(s0)
    first = seeder.get_seed(seed)
    return first == seed and seeder.get_seed() == s0 + 2


def _two_seeders_agree(s0: int, seed: int, use_explicit: bool) -> bool:
    """
    Determinism: two seeders built alike and used alike hand out the same seeds.

    pre: -10**6 <= s0 <= 10**6 and -10**6 <= seed <= 10**6
    post: __return__
    """
    a, b = Seeder(s0), Seeder(s0)
    arg = seed if use_explicit else None
    return [a.get_seed(arg), a.get_seed()] == [b.get_seed(arg), b.get_seed()]
