"""Runner: ``python -m symgem.run <ID> [--tier quick|thorough] [--replay PATH]``.

Exit codes: 0 property held on everything explored (known findings only), 1 reproduced violation
(``VIOLATION property=<id> replay=<path>``), 2 inconclusive (solver unknown, budget, unsupported operation),
3 harness error (vacuous run, counterexample that does not reproduce, self-test mismatch).
"""
from __future__ import annotations

import argparse
import hashlib
import importlib
import json
import logging
import os
import re
import sys
import time
import traceback
from concurrent.futures import ProcessPoolExecutor, as_completed
from multiprocessing import get_context
from pathlib import Path

VERIF = Path(__file__).resolve().parent.parent
REPO = Path(os.environ.get("VERIF_REPO", "/repo")).resolve()
SRC = str(REPO / "src")


def _setup_path():
    if SRC not in sys.path:
        sys.path.insert(0, SRC)
    if str(VERIF) not in sys.path:
        sys.path.insert(0, str(VERIF))


_setup_path()

TIERS = {
    "quick": dict(query_timeout_ms=20000, wall_budget_s=240.0, max_paths=6000, selftest_paths=2),
    "thorough": dict(query_timeout_ms=60000, wall_budget_s=1500.0, max_paths=60000, selftest_paths=4),
}

_FUNCS_SEEN = set()
_MON = False


def _start_monitoring():
    global _MON
    if _MON:
        return
    _MON = True
    mon = sys.monitoring
    tool = 3
    try:
        mon.use_tool_id(tool, "symgem")
    except ValueError:
        return

    def on_start(code, offset):
        fn = code.co_filename
        if fn.startswith(SRC) and not code.co_name.startswith("<") and not code.co_name[:1].isupper():
            _FUNCS_SEEN.add((fn[len(SRC) + 1:], code.co_qualname))
        return mon.DISABLE

    mon.register_callback(tool, mon.events.PY_START, on_start)
    mon.set_events(tool, mon.events.PY_START)


def _load(prop):
    return importlib.import_module(f"harness.{prop}")


def _replay_violation(mod, hname, cfg, v):
    from symgem.core import Replayer

    info = {}
    for model in [v["model"]] + list(v.get("alt_models", [])):
        rp = Replayer(model).run(mod.HARNESSES[hname], cfg)
        if v["kind"] == "exception":
            ok = isinstance(rp.exception, dict) and rp.exception["exc_type"] == v["exc_type"]
            return ok, dict(replay_exception=rp.exception)
        failed = [lab for lab, okk in rp.results if not okk]
        info = dict(replay_exception=rp.exception, replay_failed=failed[:10])
        if v["label"] in failed:
            if model is not v["model"]:
                v["model"] = model   # report the model that reproduces
            return True, info
    return False, info


def run_one(args):
    """Worker: explore one (harness, configuration) pair symbolically, replay what it finds."""
    prop, idx, tier, seed, wall_override = args
    logging.disable(logging.CRITICAL)
    _start_monitoring()
    from symgem.core import Explorer, Replayer

    mod = _load(prop)
    hname, cfg = mod.configs(tier)[idx]
    t0 = time.perf_counter()
    opts = dict(TIERS[tier])
    opts.update(getattr(mod, "EXPLORER_OPTS", {}).get(tier, {}))
    if wall_override:
        opts["wall_budget_s"] = wall_override
    before = set(_FUNCS_SEEN)
    ex = Explorer(seed=seed, **opts)
    out = dict(harness=hname, cfg=cfg, idx=idx)
    try:
        ex.run(mod.HARNESSES[hname], cfg)
    except BaseException as e:  # engine failure
        out.update(error=f"{type(e).__name__}: {e}", tb=traceback.format_exc()[-3000:], stats=ex.stats, violations=[],
                   inconclusive=ex.inconclusive, samples=[], selftest=dict(ok=0, mismatch=[]), funcs=[], wall=time.perf_counter() - t0)
        return out
    viols = []
    seen = set()
    for v in ex.violations:
        key = (v["kind"], re.sub(r"\d+", "#", v["label"]) if False else v["label"], v.get("site"))
        if key in seen:
            continue
        seen.add(key)
        try:
            ok, info = _replay_violation(mod, hname, cfg, v)
        except BaseException as e:
            ok, info = False, dict(replay_error=f"{type(e).__name__}: {e}")
        v = dict(v)
        v["reproduced"] = ok
        v.update(info)
        viols.append(v)
    # differential self-test: symbolic result under a model == concrete float64 run of the real code
    st_ok, st_bad = 0, []
    if cfg.get("selftest", True):
        viol_paths = {tuple(v["decisions"]) for v in ex.violations}
        for pm in ex.path_models:
            if tuple(pm["decisions"]) in viol_paths:
                continue
            problems = []
            for cand in [pm] + pm.get("alternatives", []):
                try:
                    rp = Replayer(cand["model"]).run(mod.HARNESSES[hname], cfg)
                except BaseException as e:
                    problems.append(f"replay crashed: {type(e).__name__}: {e}")
                    continue
                if rp.exception is not None:
                    problems.append(f"concrete run raised {rp.exception}")
                    continue
                bad = [lab for lab, okk in rp.results if not okk]
                mism = _compare_observed(cand["observed"], rp.observed)
                if bad or mism:
                    problems.append(dict(failed_checks=bad[:5], observed_mismatch=mism[:5], model=cand["model"]["vars"]))
                else:
                    problems = []
                    break
            if problems:
                st_bad.append(problems[0])
            else:
                st_ok += 1
    out["first_attempt_unknown"] = getattr(ex, "recovered", [])
    out.update(stats=ex.stats, violations=viols, inconclusive=ex.inconclusive[:20], samples=ex.samples[:3],
               selftest=dict(ok=st_ok, mismatch=st_bad[:3]),
               funcs=sorted(_FUNCS_SEEN - before), wall=time.perf_counter() - t0)
    return out


def _compare_observed(sym_obs, conc_obs):
    import numpy as np

    bad = []
    if len(sym_obs) != len(conc_obs):
        return [f"number of observed values differs: {len(sym_obs)} vs {len(conc_obs)}"]
    for (l1, s), (l2, c) in zip(sym_obs, conc_obs):
        if l1 != l2:
            bad.append(f"label {l1} vs {l2}")
            continue
        if isinstance(c, str):
            continue
        c = np.asarray(c, dtype=float)
        if list(c.shape) != list(s["shape"]):
            bad.append(f"{l1}: shape {s['shape']} vs {list(c.shape)}")
            continue
        for sv, cv in zip(s["values"], c.ravel()):
            if sv is None or isinstance(sv, str):
                continue
            if not (abs(sv - cv) <= 1e-7 * max(1.0, abs(sv), abs(cv))):
                bad.append(f"{l1}: symbolic {sv} vs concrete {cv}")
                break
    return bad


def _match_known(known, prop, hname, cfg, v):
    for k in known:
        if k.get("status", "open") != "open" or k["property"] != prop:
            continue
        if k.get("harness") and k["harness"] != hname:
            continue
        if k.get("harness_regex") and not re.search(k["harness_regex"], hname):
            continue
        if k.get("label_regex") and not re.search(k["label_regex"], v["label"]):
            continue
        if k.get("site_regex") and not re.search(k["site_regex"], v.get("site") or ""):
            continue
        if k.get("cfg") and any(cfg.get(a) != b for a, b in k["cfg"].items()):
            continue
        return k
    return None


def file_sha(path):
    try:
        return hashlib.sha256(Path(path).read_bytes()).hexdigest()[:16]
    except OSError:
        return None


def main(argv=None):
    ap = argparse.ArgumentParser()
    ap.add_argument("prop")
    ap.add_argument("--tier", default=os.environ.get("VERIF_TIER", "quick"), choices=["quick", "thorough"])
    ap.add_argument("--replay")
    ap.add_argument("--only", help="regex on harness name (development)")
    ap.add_argument("--jobs", type=int, default=int(os.environ.get("VERIF_JOBS", "0")) or min(16, os.cpu_count() or 1))
    ap.add_argument("--no-evidence", action="store_true")
    ap.add_argument("--wall", type=float, help="per-configuration wall budget override (development)")
    a = ap.parse_args(argv)
    logging.disable(logging.CRITICAL)
    prop = a.prop
    seed = int(os.environ.get("VERIF_SEED", "0") or 0)
    mod = _load(prop)

    if a.replay:
        from symgem.core import Replayer

        rec = json.loads(Path(a.replay).read_text())
        rp = Replayer(rec["model"]).run(mod.HARNESSES[rec["harness"]], rec["cfg"])
        failed = [lab for lab, ok in rp.results if not ok]
        print(json.dumps(dict(harness=rec["harness"], cfg=rec["cfg"], expected=rec["label"], failed_checks=failed,
                              exception=rp.exception), indent=1, default=str))
        rep = (rec["kind"] == "exception" and isinstance(rp.exception, dict) and rp.exception["exc_type"] == rec.get("exc_type")) or rec["label"] in failed
        print("REPRODUCED" if rep else "NOT REPRODUCED")
        return 1 if rep else 0

    t0 = time.perf_counter()
    cfgs = mod.configs(a.tier)
    idxs = [i for i, (h, c) in enumerate(cfgs) if not a.only or re.search(a.only, h + " " + json.dumps(c, default=str))]
    results = []
    if a.jobs == 1:
        for i in idxs:
            results.append(run_one((prop, i, a.tier, seed, a.wall)))
    else:
        with ProcessPoolExecutor(max_workers=a.jobs, mp_context=get_context("spawn")) as pool:
            futs = [pool.submit(run_one, (prop, i, a.tier, seed, a.wall)) for i in idxs]
            for f in as_completed(futs):
                results.append(f.result())
    results.sort(key=lambda r: r["idx"])

    # crosshair kernels (optional, per harness module)
    ch_results = []
    if hasattr(mod, "crosshair_targets") and not a.only:
        from symgem.crosshair_run import run_targets

        ch_results = run_targets(mod.crosshair_targets(a.tier), a.tier)

    known = json.loads((VERIF / "known_findings.json").read_text())["findings"] if (VERIF / "known_findings.json").exists() else []
    tot = {}
    funcs = set()
    new_viol, known_hits, nonrepro, errors, inconcl, vacuous, st_bad = [], {}, [], [], [], [], []
    samples = []
    st_ok = 0
    for r in results:
        for k, v in r["stats"].items():
            tot[k] = tot.get(k, 0) + v
        funcs.update(tuple(f) for f in r["funcs"])
        if r.get("error"):
            errors.append(f"{r['harness']} {r['cfg']}: {r['error']}\n{r.get('tb', '')}")
        for s in sorted(r["samples"], key=lambda x: x["verdict"] != "unsat")[:1]:
            samples.append(dict(harness=r["harness"], cfg=r["cfg"], **s))
        if r["inconclusive"]:
            inconcl.append(dict(harness=r["harness"], cfg=r["cfg"], why=r["inconclusive"][:5]))
        if r["stats"].get("reach_witness", 0) == 0 and not r.get("error") and not r["violations"]:
            vacuous.append(dict(harness=r["harness"], cfg=r["cfg"]))
        st_ok += r["selftest"]["ok"]
        for m in r["selftest"]["mismatch"]:
            st_bad.append(dict(harness=r["harness"], cfg=r["cfg"], mismatch=m))
        for v in r["violations"]:
            rec = dict(property=prop, harness=r["harness"], cfg=r["cfg"], **v)
            if not v["reproduced"]:
                nonrepro.append(rec)
                continue
            k = _match_known(known, prop, r["harness"], r["cfg"], v)
            if k is not None:
                known_hits.setdefault(k["id"], (k, 0))
                known_hits[k["id"]] = (k, known_hits[k["id"]][1] + 1)
            else:
                new_viol.append(rec)
    for c in ch_results:
        if c["verdict"] == "refuted":
            new_viol.append(dict(property=prop, harness="crosshair:" + c["target"], cfg={}, kind="crosshair", label=c["target"],
                                 model=dict(message=c["detail"]), reproduced=True))
        elif c["verdict"] != "confirmed":
            inconcl.append(dict(harness="crosshair:" + c["target"], why=[c["verdict"], c["detail"][:300]]))

    wall = time.perf_counter() - t0
    # ---- report ---------------------------------------------------------------------------
    for kid, (k, n) in sorted(known_hits.items()):
        print(f"KNOWN-FINDING: property={prop} {k['id']}: {k['what']} ({n} counterexample(s) on this run)")
    replays = []
    rdir = VERIF / "evidence" / "replays"
    if new_viol:
        rdir.mkdir(parents=True, exist_ok=True)
    seen_sites = set()
    for rec in new_viol:
        key = (rec["harness"], rec["label"], rec.get("site"))
        if key in seen_sites:
            continue
        seen_sites.add(key)
        dig = hashlib.sha256(json.dumps([rec["harness"], rec["cfg"], rec["label"]], sort_keys=True, default=str).encode()).hexdigest()[:10]
        p = rdir / f"{prop}-{dig}.json"
        p.write_text(json.dumps(rec, indent=1, default=str))
        replays.append(str(p))
        what = rec.get("message") or rec.get("formula", "")
        print(f"VIOLATION property={prop} replay={p}")
        print(f"  harness={rec['harness']} cfg={json.dumps(rec['cfg'], default=str)} failed={rec['label']} site={rec.get('site')} {str(what)[:300]}")
        print(f"  model={json.dumps(rec.get('model', {}), default=str)[:600]}")
    for rec in nonrepro[:10]:
        print(f"HARNESS-ERROR: counterexample did not reproduce concretely: {rec['harness']} {json.dumps(rec['cfg'], default=str)} {rec['label']} "
              f"{rec.get('message', '')} replay={ {k: rec.get(k) for k in ('replay_exception', 'replay_failed', 'replay_error')} } model={json.dumps(rec['model']['vars'])[:400]}")
    for e in errors[:5]:
        print("HARNESS-ERROR:", e)
    for v in vacuous[:5]:
        print("HARNESS-ERROR: vacuous (no reachable path):", v)
    for m in st_bad[:5]:
        print("HARNESS-ERROR: self-test mismatch (symbolic vs concrete run):", json.dumps(m, default=str)[:800])
    for i in inconcl[:10]:
        print("INCONCLUSIVE:", json.dumps(i, default=str)[:600])

    if new_viol:
        code = 1
    elif nonrepro or errors or vacuous or st_bad:
        code = 3
    elif inconcl:
        code = 2
    else:
        code = 0

    meta = getattr(mod, "META", {})
    files = sorted({f for f, _ in funcs})
    ev = dict(
        property_id=prop, tier=a.tier, seed=seed, level="model_checking",
        coverage=dict(
            states=max(1, tot.get("paths", 0)), transitions=max(1, tot.get("decisions", 0)),
            traces_validated_against_impl=st_ok,
            samples=sorted(samples, key=lambda x: x["verdict"] != "unsat")[:8] or [dict(note="no obligation sample recorded")],
            configurations=len(results), obligations=tot.get("obligations", 0),
            queries=dict(total=tot.get("queries", 0), unsat=tot.get("q_unsat", 0), sat=tot.get("q_sat", 0),
                         unknown=tot.get("q_unknown", 0), closed_by_simplifier=tot.get("trivial", 0)),
            solver_time_s=round(tot.get("solver_s", 0.0), 2),
            paths_with_reachability_witness=tot.get("reach_witness", 0), paths_pruned_by_assumptions=tot.get("assumed_pruned", 0) + tot.get("aborted", 0),
            exhaustive=False,
            bounds=meta.get("bounds", {}).get(a.tier, meta.get("bounds", "")),
            outside_the_bound=meta.get("outside", []),
            stubs=meta.get("stubs", []),
            functions_encoded=[f"{f}:{q}" for f, q in sorted(funcs)][:400],
            source_files={f: file_sha(Path(SRC) / f) for f in files},
            harness_configurations=[dict(harness=r["harness"], cfg=r["cfg"], paths=r["stats"].get("paths"), obligations=r["stats"].get("obligations"),
                                         wall_s=round(r["wall"], 2)) for r in results][:200],
            crosshair=ch_results,
            known_findings_hit=[dict(id=k["id"], counterexamples=n) for k, (k, n) in ((kid, kn) for kid, kn in known_hits.items())] if False else
            [dict(id=kid, counterexamples=kn[1]) for kid, kn in known_hits.items()],
            inconclusive=inconcl[:20], replays=replays, exit_code=code,
            solver=f"z3 {__import__('z3').get_version_string()}", repo=str(REPO),
        ),
        assumptions=meta.get("assumptions", []) + [
            "float64 arithmetic modelled as exact real arithmetic; NaN/inf only as concrete configuration",
            "the symbolic model of NumPy primitives in /verif/symgem/core.py (validated per run by the differential self-test)",
        ],
        wall_s=round(wall, 2), violations=len(new_viol),
    )
    if not a.no_evidence and not a.only:
        (VERIF / "evidence").mkdir(exist_ok=True)
        (VERIF / "evidence" / f"{prop}.json").write_text(json.dumps(ev, indent=1, default=str))
    for r in results:
        if r.get("first_attempt_unknown"):
            print("note: first-attempt unknown (retried):", r["harness"], json.dumps(r["cfg"], default=str)[:200], r["first_attempt_unknown"][:3])
    slow = sorted(results, key=lambda r: -r["wall"])[:3]
    print("slowest:", "; ".join(f"{r['harness']} {json.dumps(r['cfg'], default=str)} {r['wall']:.1f}s paths={r['stats'].get('paths')}" for r in slow))
    print(f"{prop} tier={a.tier}: configs={len(results)} paths={tot.get('paths', 0)} obligations={tot.get('obligations', 0)} "
          f"queries={tot.get('queries', 0)} (unsat={tot.get('q_unsat', 0)} sat={tot.get('q_sat', 0)} unknown={tot.get('q_unknown', 0)}) "
          f"solver={tot.get('solver_s', 0):.1f}s selftest_ok={st_ok} known={len(known_hits)} new_violations={len(new_viol)} wall={wall:.1f}s exit={code}")
    return code


if __name__ == "__main__":
    sys.exit(main())
