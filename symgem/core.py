"""SYMNP core: z3-backed symbolic scalars living in numpy object arrays, a path explorer
(depth-first, re-execution) and a concrete replayer sharing one harness interface.

The harness is a function ``harness(ctx, cfg)``; it builds its inputs from ``ctx`` (``real``,
``reals``, ``boolean``, ``choice``, ``uf``), runs *real* gemseo code on them and states the
property with ``ctx.check(label, formula)`` / ``ctx.check_eq``.  In symbolic mode ``ctx`` is an
:class:`Explorer`; in concrete mode it is a :class:`Replayer` fed with a z3 model.
"""
from __future__ import annotations

import hashlib
import math
import numbers
import operator as _op
import sys
import time
from fractions import Fraction

import numpy as np
import z3

if hasattr(sys, "set_int_max_str_digits"):
    sys.set_int_max_str_digits(0)  # models of non-linear queries may hold rationals with thousands of digits (z3 converts them through strings)

_CTX = None  # the active Explorer while a symbolic path runs


def current():
    return _CTX


class PathAbort(BaseException):
    """The current path is infeasible (an assumption failed)."""


class Unsupported(BaseException):
    """The engine cannot model an operation: the run is inconclusive, never a success."""


class Budget(BaseException):
    """A bound (paths, decisions, wall time) was hit: inconclusive."""


# --------------------------------------------------------------------------------------------
# scalars
# --------------------------------------------------------------------------------------------
def frac_of_float(f: float) -> Fraction:
    return Fraction(float(f))


def _ratval(fr: Fraction):
    return z3.RealVal(f"{fr.numerator}/{fr.denominator}") if fr.denominator != 1 else z3.RealVal(fr.numerator)


def lift(v):
    """z3 Real term of a python/numpy/Sym scalar, or None."""
    if isinstance(v, SymReal):
        return v.t
    if isinstance(v, SymBool):
        return z3.If(v.t, z3.RealVal(1), z3.RealVal(0))
    if isinstance(v, (bool, np.bool_)):
        return z3.RealVal(1 if v else 0)
    if isinstance(v, (int, np.integer)):
        return z3.RealVal(int(v))
    if isinstance(v, (float, np.floating)):
        f = float(v)
        if f != f or f in (math.inf, -math.inf):
            raise Unsupported("nan/inf in symbolic arithmetic")
        return _ratval(Fraction(f))
    if isinstance(v, Fraction):
        return _ratval(v)
    if isinstance(v, (complex, np.complexfloating)):
        if v.imag == 0:
            return lift(v.real)
        raise Unsupported("complex constant in real arithmetic")
    if isinstance(v, np.ndarray) and v.shape == ():
        return lift(v[()])
    if z3.is_expr(v) and v.sort() == z3.RealSort():
        return v
    return None


def blift(o):
    if isinstance(o, SymBool):
        return o.t
    if z3.is_expr(o):
        return o
    return z3.BoolVal(bool(o))


class SymBool:
    """A z3 Bool.  As a truth value it is a branch point; as a number it is If(b,1,0)."""

    __slots__ = ("t",)
    __array_priority__ = 1000

    def __init__(self, t):
        self.t = t

    def __bool__(self):
        if _CTX is None:
            raise Unsupported("SymBool used as truth value outside a path")
        return _CTX.branch(self.t)

    def __and__(self, o):
        return SymBool(z3.And(self.t, blift(o)))

    __rand__ = __and__

    def __or__(self, o):
        return SymBool(z3.Or(self.t, blift(o)))

    __ror__ = __or__

    def __xor__(self, o):
        return SymBool(z3.Xor(self.t, blift(o)))

    __rxor__ = __xor__

    def __invert__(self):
        return SymBool(z3.Not(self.t))

    def _num(self):
        return SymReal(z3.If(self.t, z3.RealVal(1), z3.RealVal(0)))

    def __add__(self, o):
        return self._num() + o

    def __radd__(self, o):
        return o + self._num()

    def __sub__(self, o):
        return self._num() - o

    def __rsub__(self, o):
        return o - self._num()

    def __mul__(self, o):
        return self._num() * o

    def __rmul__(self, o):
        return o * self._num()

    def __eq__(self, o):
        if isinstance(o, (SymBool, bool, np.bool_)):
            return SymBool(self.t == blift(o))
        return self._num() == o

    def __ne__(self, o):
        if isinstance(o, (SymBool, bool, np.bool_)):
            return SymBool(self.t != blift(o))
        return self._num() != o

    __hash__ = None

    def __repr__(self):
        return f"SymBool({self.t})"

    def __deepcopy__(self, memo):
        return self

    def __array_ufunc__(self, ufunc, method, *inputs, **kw):
        return SymArray.__array_ufunc__(None, ufunc, method, *inputs, **kw)


def _is_const(t):
    return z3.is_rational_value(t) or z3.is_int_value(t)


def _const_fraction(t) -> Fraction:
    if z3.is_int_value(t):
        return Fraction(t.as_long())
    return Fraction(t.numerator_as_long(), t.denominator_as_long())


def _div(a, b):
    if _is_const(b):
        if _const_fraction(b) == 0:
            raise ZeroDivisionError("division by zero")
        return a / b
    if _CTX is not None and _CTX.branch(b == 0):
        raise ZeroDivisionError("symbolic division by zero")
    return a / b


def _simp(t):
    return z3.simplify(t)


class SymReal:
    """A z3 Real term with the python number protocol."""

    __slots__ = ("t",)
    __array_priority__ = 1000

    def __init__(self, t):
        self.t = t

    def _bin(self, o, f, rev=False):
        if isinstance(o, np.ndarray) and o.shape != ():
            return NotImplemented
        if isinstance(o, SymComplex):
            return NotImplemented
        if isinstance(o, (complex, np.complexfloating)) and o.imag != 0:
            c = SymComplex(self, 0)
            fn = {"add": _op.add, "sub": _op.sub, "mul": _op.mul, "div": _op.truediv}.get(getattr(f, "_nm", ""), None)
            if fn is None:
                raise Unsupported("complex operand")
            return fn(o, c) if rev else fn(c, o)
        if isinstance(o, (float, np.floating)) and np.isinf(o):
            return self._with_inf(float(o), getattr(f, "_nm", ""), rev)
        ot = lift(o)
        if ot is None:
            return NotImplemented
        a, b = (ot, self.t) if rev else (self.t, ot)
        return SymReal(_simp(f(a, b)))

    def _with_inf(self, inf, op, rev):
        """IEEE arithmetic of a finite symbolic real with +-inf (the result is a concrete float)."""
        if op == "add":
            return inf
        if op == "sub":
            return inf if rev else -inf
        if op == "mul":
            if bool(self > 0):
                return inf
            if bool(self < 0):
                return -inf
            return float("nan")
        if op == "div":
            if not rev:
                return 0.0
            if bool(self > 0):
                return inf
            if bool(self < 0):
                return -inf
            raise ZeroDivisionError("inf / symbolic zero")
        raise Unsupported("inf in symbolic arithmetic")

    def __add__(self, o):
        return self._bin(o, _f_add)

    def __radd__(self, o):
        return self._bin(o, _f_add, True)

    def __sub__(self, o):
        return self._bin(o, _f_sub)

    def __rsub__(self, o):
        return self._bin(o, _f_sub, True)

    def __mul__(self, o):
        return self._bin(o, _f_mul)

    def __rmul__(self, o):
        return self._bin(o, _f_mul, True)

    def __truediv__(self, o):
        return self._bin(o, _f_div)

    def __rtruediv__(self, o):
        return self._bin(o, _f_div, True)

    def __floordiv__(self, o):  # plain object-dtype arrays call the Python operator, not the ufunc
        return _floor_divide(self, _py(o))

    def __neg__(self):
        return SymReal(_simp(-self.t))

    def __pos__(self):
        return self

    def __abs__(self):
        return SymReal(_simp(z3.If(self.t >= 0, self.t, -self.t)))

    def __pow__(self, o):
        if isinstance(o, SymReal) and _is_const(o.t):
            o = float(_const_fraction(o.t))
        if isinstance(o, (float, np.floating)) and float(o).is_integer():
            o = int(o)
        if isinstance(o, (int, np.integer)):
            k = int(o)
            r = z3.RealVal(1)
            for _ in range(abs(k)):
                r = r * self.t
            if k < 0:
                return SymReal(_simp(_div(z3.RealVal(1), _simp(r))))
            return SymReal(_simp(r))
        if isinstance(o, (float, np.floating)) and float(o) == 0.5:
            return sym_sqrt(self)
        if isinstance(o, (float, np.floating)) and (2 * float(o)).is_integer() and abs(float(o)) <= 8:
            return sym_sqrt(self) ** int(2 * float(o))  # x**(k/2) == sqrt(x)**k on x >= 0 (x < 0 is nan in numpy, Unsupported here)
        ot = lift(o)
        if ot is None:
            return NotImplemented
        return SymReal(_uf_app("pow", self.t, ot))

    def __rpow__(self, o):
        ot = lift(o)
        if ot is None:
            return NotImplemented
        return SymReal(_uf_app("pow", ot, self.t))

    def _cmp(self, o, f):
        if isinstance(o, np.ndarray) and o.shape != ():
            return NotImplemented
        if isinstance(o, (float, np.floating)):
            if np.isnan(o):
                return False if f is not _op.ne else True
            if np.isinf(o):
                return bool(f(0.0, float(o)))
        ot = lift(o)
        if ot is None:
            return NotImplemented
        return SymBool(_simp(f(self.t, ot)))

    def __lt__(self, o):
        return self._cmp(o, _op.lt)

    def __le__(self, o):
        return self._cmp(o, _op.le)

    def __gt__(self, o):
        return self._cmp(o, _op.gt)

    def __ge__(self, o):
        return self._cmp(o, _op.ge)

    def __eq__(self, o):
        if o is None or isinstance(o, str):
            return False
        return self._cmp(o, _op.eq)

    def __ne__(self, o):
        if o is None or isinstance(o, str):
            return True
        return self._cmp(o, _op.ne)

    __hash__ = None
    real = property(lambda self: self)
    imag = property(lambda self: 0.0)
    dtype = np.dtype(object)
    ndim = 0
    shape = ()
    size = 1

    def conjugate(self):
        return self

    conj = conjugate

    def item(self):
        return self

    def __float__(self):
        if _is_const(self.t):
            return float(_const_fraction(self.t))
        raise Unsupported("float() of a symbolic real (code is not dtype-agnostic here)")

    def __int__(self):
        if _is_const(self.t):
            fr = _const_fraction(self.t)
            return int(fr)
        raise Unsupported("int() of a symbolic real")

    def __index__(self):
        raise Unsupported("symbolic real used as an index")

    def __complex__(self):
        return complex(float(self))

    def __round__(self, n=None):
        if n not in (None, 0):
            raise Unsupported("round(ndigits)")
        return sym_rint(self)

    def __bool__(self):  # truth value of a number: x != 0 (a branch point), as for a python float
        return bool(self != 0)

    def __repr__(self):
        return f"S<{self.t}>"

    def __format__(self, spec):
        return repr(self)

    def copy(self):
        return self

    def __copy__(self):
        return self

    def __deepcopy__(self, memo):
        return self

    def __reduce__(self):
        raise Unsupported("pickling a symbolic value")

    # numpy calls these methods for object arrays that lost the SymArray subclass
    def sqrt(self):
        return sym_sqrt(self)

    def exp(self):
        return sym_exp(self)

    def log(self):
        return sym_log(self)

    def rint(self):
        return sym_rint(self)

    def __array_ufunc__(self, ufunc, method, *inputs, **kw):
        return SymArray.__array_ufunc__(None, ufunc, method, *inputs, **kw)


def _f_add(a, b):
    return a + b


def _f_sub(a, b):
    return a - b


def _f_mul(a, b):
    return a * b


def _f_div(a, b):
    return _div(a, b)


_f_add._nm, _f_sub._nm, _f_mul._nm, _f_div._nm = "add", "sub", "mul", "div"

numbers.Real.register(SymReal)


class SymComplex:
    """Pair of reals, for the complex-step code only."""

    __slots__ = ("re", "im")
    __array_priority__ = 1000

    def __init__(self, re, im=0.0):
        self.re = re
        self.im = im

    @staticmethod
    def _parts(o):
        if isinstance(o, SymComplex):
            return o.re, o.im
        if isinstance(o, (complex, np.complexfloating)):
            return float(o.real), float(o.imag)
        if isinstance(o, (SymReal, int, float, np.integer, np.floating, bool, np.bool_)):
            return o, 0.0
        return None

    def __add__(self, o):
        p = self._parts(o)
        if p is None:
            return NotImplemented
        return SymComplex(self.re + p[0], self.im + p[1])

    __radd__ = __add__

    def __sub__(self, o):
        p = self._parts(o)
        if p is None:
            return NotImplemented
        return SymComplex(self.re - p[0], self.im - p[1])

    def __rsub__(self, o):
        p = self._parts(o)
        if p is None:
            return NotImplemented
        return SymComplex(p[0] - self.re, p[1] - self.im)

    def __mul__(self, o):
        p = self._parts(o)
        if p is None:
            return NotImplemented
        return SymComplex(self.re * p[0] - self.im * p[1], self.re * p[1] + self.im * p[0])

    __rmul__ = __mul__

    def __truediv__(self, o):
        p = self._parts(o)
        if p is None:
            return NotImplemented
        c, d = p
        den = c * c + d * d
        return SymComplex((self.re * c + self.im * d) / den, (self.im * c - self.re * d) / den)

    def __rtruediv__(self, o):
        p = self._parts(o)
        if p is None:
            return NotImplemented
        return SymComplex(*p) / self

    def __neg__(self):
        return SymComplex(-self.re, -self.im)

    def __pow__(self, k):
        if isinstance(k, (float, np.floating)) and float(k).is_integer():
            k = int(k)
        if not isinstance(k, (int, np.integer)) or k < 0:
            raise Unsupported("complex pow")
        r = SymComplex(1.0, 0.0)
        for _ in range(int(k)):
            r = r * self
        return r

    real = property(lambda self: self.re)
    imag = property(lambda self: self.im)
    dtype = np.dtype(object)

    def conjugate(self):
        return SymComplex(self.re, -self.im)

    def __eq__(self, o):
        p = self._parts(o)
        if p is None:
            return False
        return (self.re == p[0]) & (self.im == p[1])

    __hash__ = None

    def __repr__(self):
        return f"SC<{self.re}+{self.im}j>"

    def __deepcopy__(self, memo):
        return self

    def __array_ufunc__(self, ufunc, method, *inputs, **kw):
        return SymArray.__array_ufunc__(None, ufunc, method, *inputs, **kw)


numbers.Complex.register(SymComplex)


# --------------------------------------------------------------------------------------------
# transcendental and rounding primitives
# --------------------------------------------------------------------------------------------
_UF_CACHE = {}


def z3func(name, n):
    key = (name, n)
    if key not in _UF_CACHE:
        _UF_CACHE[key] = z3.Function(name, *([z3.RealSort()] * (n + 1)))
    return _UF_CACHE[key]


def _uf_app(name, *args):
    t = z3func(name, len(args))(*args)
    if _CTX is not None:
        _CTX.note_app(name, args, t)
    return t


def _has_div(t, _depth=0) -> bool:
    """Whether a division occurs in the term (bounded traversal)."""
    todo, seen = [t], set()
    while todo and len(seen) < 4000:
        u = todo.pop()
        if u.get_id() in seen:
            continue
        seen.add(u.get_id())
        if z3.is_app(u):
            if u.decl().kind() == z3.Z3_OP_DIV:
                return True
            todo.extend(u.children())
    return False


def _sum_of_squares(t) -> bool:
    """Syntactic test: t is a sum of products u*u / even powers / nonneg constants."""
    if _is_const(t):
        return _const_fraction(t) >= 0
    k = t.decl().kind()
    if k == z3.Z3_OP_ADD:
        return all(_sum_of_squares(c) for c in t.children())
    if k == z3.Z3_OP_MUL:
        ch = t.children()
        consts = [c for c in ch if _is_const(c)]
        rest = [c for c in ch if not _is_const(c)]
        sign = 1
        for c in consts:
            if _const_fraction(c) < 0:
                sign = -sign
        if sign < 0:
            return False
        seen = {}
        for c in rest:
            if _sum_of_squares(c):
                continue
            seen[c.get_id()] = seen.get(c.get_id(), 0) + 1
        return all(v % 2 == 0 for v in seen.values())
    if k == z3.Z3_OP_POWER:
        e = t.children()[1]
        return _is_const(e) and _const_fraction(e).denominator == 1 and _const_fraction(e) % 2 == 0
    if k == z3.Z3_OP_ITE:
        return _sum_of_squares(t.children()[1]) and _sum_of_squares(t.children()[2])
    return False


def sym_sqrt(x):
    if isinstance(x, SymReal):
        if _is_const(x.t):
            fr = _const_fraction(x.t)
            if fr < 0:
                raise Unsupported("sqrt of a negative constant")
            r = Fraction(math.isqrt(fr.numerator), math.isqrt(fr.denominator))
            if r * r == fr:
                return SymReal(_ratval(r))
        # sqrt is a function: the same (canonicalised) radicand on a path gets the same auxiliary; sqrt_defs maps the
        # auxiliary's name to its radicand for the differentiator (symgem/diff.py: ds = dt / (2 s))
        defs = _CTX.__dict__.setdefault("sqrt_defs", {})
        canon = z3.simplify(x.t, som=True)
        for nm, (rad, key, aux) in defs.items():
            if key.get_id() == canon.get_id():
                return aux
        if not _sum_of_squares(x.t):
            if _CTX.branch(x.t < 0):
                raise Unsupported("sqrt of a negative symbolic value")
        s = _CTX.fresh_aux("sqrt")
        _CTX.add_axiom(z3.And(s.t >= 0, s.t * s.t == x.t))
        defs[s.t.decl().name()] = (x.t, canon, s)
        return s
    if isinstance(x, SymBool):
        return x._num()
    return math.sqrt(x)


def sym_exp(x):
    if isinstance(x, SymReal):
        if _is_const(x.t) and _const_fraction(x.t) == 0:
            return SymReal(z3.RealVal(1))
        t = _uf_app("exp", x.t)
        _CTX.add_axiom(t > 0)
        return SymReal(t)
    return math.exp(x)


def sym_log(x):
    if isinstance(x, SymReal):
        if _is_const(x.t) and _const_fraction(x.t) == 1:
            return SymReal(z3.RealVal(0))
        return SymReal(_uf_app("log", x.t))
    return math.log(x)


def _is_integral(t) -> bool:
    """Syntactic test: the real term is integer-valued (ToReal(..), integer constants, sums/products/ite of such)."""
    if _is_const(t):
        return _const_fraction(t).denominator == 1
    k = t.decl().kind()
    if k == z3.Z3_OP_TO_REAL:
        return True
    if k in (z3.Z3_OP_ADD, z3.Z3_OP_SUB, z3.Z3_OP_MUL, z3.Z3_OP_UMINUS):
        return all(_is_integral(c) for c in t.children())
    if k == z3.Z3_OP_ITE:
        return _is_integral(t.children()[1]) and _is_integral(t.children()[2])
    return False


def sym_rint(x):
    """Round half to even over the reals (numpy.rint / numpy.round(decimals=0))."""
    if isinstance(x, SymReal):
        if _is_integral(x.t):
            return x
        half = z3.RealVal("1/2")
        fl = z3.ToInt(x.t + half)
        r = z3.ToReal(fl)
        tie = (x.t + half) == r
        return SymReal(_simp(z3.If(z3.And(tie, fl % 2 == 1), r - 1, r)))
    return float(np.rint(x))


def sym_floor(x):
    if isinstance(x, SymReal):
        return SymReal(_simp(z3.ToReal(z3.ToInt(x.t))))
    return math.floor(x)


def sym_ceil(x):
    if isinstance(x, SymReal):
        return SymReal(_simp(-z3.ToReal(z3.ToInt(-x.t))))
    return math.ceil(x)


def _is_sym(x):
    return isinstance(x, (SymReal, SymBool, SymComplex))


def _maximum(a, b):
    if _is_sym(a) or _is_sym(b):
        at, bt = lift(a), lift(b)
        return SymReal(_simp(z3.If(at >= bt, at, bt)))
    return max(a, b)


def _minimum(a, b):
    if _is_sym(a) or _is_sym(b):
        at, bt = lift(a), lift(b)
        return SymReal(_simp(z3.If(at <= bt, at, bt)))
    return min(a, b)


def _sign(a):
    if isinstance(a, SymReal):
        return SymReal(_simp(z3.If(a.t > 0, z3.RealVal(1), z3.If(a.t < 0, z3.RealVal(-1), z3.RealVal(0)))))
    return np.sign(a)


def _heaviside(x, h):
    """numpy.heaviside(x, h): 0 for x < 0, h at x == 0, 1 for x > 0."""
    if _is_sym(x) or _is_sym(h):
        xt, ht = lift(x), lift(h)
        return SymReal(_simp(z3.If(xt < 0, z3.RealVal(0), z3.If(xt > 0, z3.RealVal(1), ht))))
    return np.heaviside(x, h)


def _isnan(x):
    if _is_sym(x):
        return False
    try:
        return bool(np.isnan(x))
    except TypeError:
        return False


def _isinf(x):
    return False if _is_sym(x) else bool(np.isinf(x))


def _isfinite(x):
    return True if _is_sym(x) else bool(np.isfinite(x))


def _truth(x):
    return bool(x)


def _logical_and(a, b):
    if isinstance(a, SymBool) or isinstance(b, SymBool):
        return bool(SymBool(z3.And(blift(a), blift(b))))
    return bool(a) and bool(b)


def _logical_or(a, b):
    if isinstance(a, SymBool) or isinstance(b, SymBool):
        return bool(SymBool(z3.Or(blift(a), blift(b))))
    return bool(a) or bool(b)


def _logical_not(a):
    return not bool(a)


def _abs(a):
    if isinstance(a, SymComplex):
        return sym_sqrt(a.re * a.re + a.im * a.im)
    return abs(a)


def _real(a):
    return a.real if hasattr(a, "real") else a


def _conj(a):
    return a.conjugate() if hasattr(a, "conjugate") else a


def _floor_divide(a, b):
    """numpy.floor_divide over the reals: floor(a / b); the divisor must be a non-zero finite constant."""
    if _is_sym(a) or _is_sym(b):
        if isinstance(b, SymReal) and _is_const(b.t):
            b = _const_fraction(b.t)
        if _is_sym(b):
            raise Unsupported("floor_divide with a symbolic divisor")
        if isinstance(b, (float, np.floating)):
            if not np.isfinite(b):
                raise Unsupported("floor_divide by inf/nan")
            b = Fraction(float(b))
        if b == 0:
            raise Unsupported("floor_divide by zero")
        if isinstance(a, SymBool):
            a = a._num()
        return sym_floor(a / b)
    return a // b


def _remainder(a, b):
    """numpy.remainder (= numpy.mod): a - floor(a / b) * b, sign of the divisor; the divisor must be a non-zero constant."""
    if _is_sym(a) or _is_sym(b):
        if isinstance(b, SymReal) and _is_const(b.t):
            b = _const_fraction(b.t)
        if _is_sym(b):
            raise Unsupported("remainder with a symbolic divisor")
        if isinstance(b, (float, np.floating)):
            if not np.isfinite(b):
                raise Unsupported("remainder by inf/nan")
            b = Fraction(float(b))
        if b == 0:
            raise Unsupported("remainder by zero")
        if isinstance(a, SymBool):
            a = a._num()
        return a - sym_floor(a / b) * b
    return a % b


_UFUNCS = {
    np.add: _op.add, np.subtract: _op.sub, np.multiply: _op.mul, np.true_divide: _op.truediv,
    np.negative: _op.neg, np.positive: _op.pos, np.absolute: _abs, np.power: _op.pow,
    np.square: lambda x: x * x, np.sqrt: sym_sqrt, np.exp: sym_exp, np.log: sym_log,
    np.maximum: _maximum, np.minimum: _minimum, np.sign: _sign,
    np.less: lambda a, b: _truth(a < b), np.less_equal: lambda a, b: _truth(a <= b),
    np.greater: lambda a, b: _truth(a > b), np.greater_equal: lambda a, b: _truth(a >= b),
    np.equal: lambda a, b: _truth(a == b), np.not_equal: lambda a, b: _truth(a != b),
    np.isnan: _isnan, np.isinf: _isinf, np.isfinite: _isfinite, np.rint: sym_rint,
    np.floor: sym_floor, np.ceil: sym_ceil,
    np.conjugate: _conj, np.logical_and: _logical_and, np.logical_or: _logical_or,
    np.logical_not: _logical_not, np.reciprocal: lambda x: 1.0 / x, np.fabs: _abs,
    np.floor_divide: _floor_divide, np.remainder: _remainder, np.heaviside: _heaviside,
}
_BOOL_OUT = {np.less, np.less_equal, np.greater, np.greater_equal, np.equal, np.not_equal, np.isnan,
             np.isinf, np.isfinite, np.logical_and, np.logical_or, np.logical_not}


def _plain(a):
    if isinstance(a, SymArray):
        return np.ndarray.view(a, np.ndarray)
    return a


def _py(v):
    # np.float64.__mul__(SymReal) would go through the ufunc machinery again: unbox first.
    return v.item() if isinstance(v, np.generic) else v


class HashToken:
    """Opaque stand-in for ``array.view(uint8)`` of a symbolic array (accepted by the hash stub only)."""

    def __init__(self, a):
        self.a = a


def has_sym(a) -> bool:
    if _is_sym(a):
        return True
    if isinstance(a, np.ndarray) and a.dtype == object:
        return any(_is_sym(e) for e in a.ravel())
    return False


class SymArray(np.ndarray):
    """Object-dtype ndarray whose ufuncs / numpy functions are executed element-wise on z3 terms."""

    __array_priority__ = 1000

    def __new__(cls, data):
        if isinstance(data, np.ndarray):
            a = np.empty(data.shape, dtype=object)
            a[...] = data
        else:
            tmp = np.empty(len(data), dtype=object) if _flat_list(data) else None
            if tmp is not None:
                for i, e in enumerate(data):
                    tmp[i] = e
                a = tmp
            else:
                a = np.array(data, dtype=object)
        return a.view(cls)

    def astype(self, dtype, *args, **kwargs):
        dt = np.dtype(dtype)
        if dt.kind in "fc" or dt == object:
            return self.copy() if kwargs.get("copy", True) else self
        if dt.kind in "iu":
            if not has_sym(self):
                return np.array([int(v) for v in _plain(self).ravel()], dtype=dt).reshape(self.shape)
            if all((not _is_sym(e)) and float(e).is_integer() or isinstance(e, SymReal) and _is_integral(e.t) for e in _plain(self).ravel()):
                return self.copy()  # integer storage of integral values is modelled as exact storage
            raise Unsupported("astype(int) on a symbolic array")
        if dt.kind == "b":
            out = np.empty(self.shape, dtype=bool)
            out.flat = [bool(v != 0) for v in _plain(self).ravel()]
            return out
        return np.ndarray.astype(_plain(self), dtype, *args, **kwargs)

    @property
    def real(self):
        if any(isinstance(e, SymComplex) for e in _plain(self).ravel()):
            out = np.empty(self.shape, dtype=object)
            out.flat = [_real(e) for e in _plain(self).ravel()]
            return out.view(SymArray)
        return self

    @property
    def imag(self):
        out = np.empty(self.shape, dtype=object)
        out.flat = [e.imag if hasattr(e, "imag") else 0.0 for e in _plain(self).ravel()]
        return out.view(SymArray)

    @property
    def data(self):  # ProblemFunction passes jac.data to isnan
        return self

    def view(self, *a, **k):
        if a and a[0] is np.uint8:
            return HashToken(self)
        return np.ndarray.view(self, *a, **k)

    def tobytes(self, *a, **k):
        raise Unsupported("tobytes of a symbolic array")

    def dot(self, other, out=None):
        return np.matmul(self, other) if np.ndim(other) and self.ndim else self * other

    def conjugate(self):
        return self

    conj = conjugate

    def round(self, decimals=0, out=None):
        return _round(self, decimals)

    def __float__(self):
        if self.size == 1:
            return float(_plain(self).ravel()[0])
        raise TypeError("only size-1 arrays can be converted")

    def __bool__(self):
        if self.size == 1:
            return bool(_plain(self).ravel()[0] != 0) if _is_sym(_plain(self).ravel()[0]) else bool(_plain(self).ravel()[0])
        raise ValueError("The truth value of an array with more than one element is ambiguous.")

    def __reduce__(self):
        if has_sym(self):
            raise Unsupported("pickling a symbolic array")
        return np.ndarray.__reduce__(self)

    def __deepcopy__(self, memo):
        return self.copy()

    def __array_ufunc__(self, ufunc, method, *inputs, out=None, **kwargs):
        if ufunc is np.matmul and method == "__call__":
            return _matmul(*inputs)
        f = _UFUNCS.get(ufunc)
        if f is None:
            raise Unsupported(f"ufunc {ufunc.__name__}")
        ins = [_plain(i) for i in inputs]
        if method == "__call__":
            kwargs.pop("casting", None)
            kwargs.pop("dtype", None)
            where = kwargs.pop("where", True)
            if where is not True:
                raise Unsupported("ufunc where=")
            bc = np.broadcast(*ins)
            odt = bool if ufunc in _BOOL_OUT else object
            res = np.empty(bc.shape, dtype=odt)
            vals_out = [f(*[_py(v) for v in vals]) for vals in bc]
            if odt is object:
                for i, v in enumerate(vals_out):
                    res.flat[i] = v
                res = res.view(SymArray)
            else:
                res.flat = vals_out
            if out is not None:
                o = out[0]
                if o.dtype != object and odt is object and has_sym(res):
                    raise Unsupported("ufunc out= into a non-object array")
                o[...] = res
                return o
            if res.shape == ():
                return res[()]
            return res
        if method == "reduce" and ufunc in (np.add, np.multiply, np.maximum, np.minimum, np.logical_and, np.logical_or):
            a = ins[0]
            if not isinstance(a, np.ndarray):  # np.all(SymBool) / np.sum(SymReal): reduction of a bare scalar
                return _py(a)
            axis = kwargs.get("axis", 0)
            keepdims = kwargs.get("keepdims", False)
            if a.ndim == 0:
                return a[()]
            if axis is None:
                a = a.ravel()
                axis = 0
            if isinstance(axis, tuple):
                r = a
                for ax in sorted(axis, reverse=True):
                    r = ufunc.reduce(_wrap(r), axis=ax)
                return r
            a = np.moveaxis(a, axis, 0)
            if a.shape[0] == 0:
                ident = {np.add: 0.0, np.multiply: 1.0, np.logical_and: True, np.logical_or: False}.get(ufunc)
                if ident is None:
                    raise ValueError("zero-size array to reduction operation which has no identity")
                return ident if a.ndim == 1 else np.full(a.shape[1:], ident)
            acc = a[0]
            for k in range(1, a.shape[0]):
                acc = ufunc(_wrap(acc), _wrap(a[k]))
            if keepdims:
                acc = np.expand_dims(_wrap(acc), axis)
            if isinstance(acc, np.ndarray) and acc.shape == ():
                return acc[()]
            return acc
        if method == "outer" and ufunc in (np.multiply, np.add, np.subtract):
            a, b = ins
            a = np.asarray(a, dtype=object).ravel() if not isinstance(a, np.ndarray) else a.ravel()
            b = np.asarray(b, dtype=object).ravel() if not isinstance(b, np.ndarray) else b.ravel()
            return ufunc(_wrap(a.reshape(-1, 1)), _wrap(b.reshape(1, -1)))
        if method == "at":
            raise Unsupported("ufunc.at")
        raise Unsupported(f"ufunc {ufunc.__name__}.{method}")

    def __array_function__(self, func, types, args, kwargs):
        h = _FUNCS.get(func)
        if h is not None:
            return h(*args, **kwargs)
        return super().__array_function__(func, types, args, kwargs)


def _flat_list(data):
    return isinstance(data, (list, tuple)) and all(not isinstance(e, (list, tuple, np.ndarray)) for e in data)


def _wrap(x):
    if isinstance(x, SymArray):
        return x
    if isinstance(x, np.ndarray):
        if x.dtype == object:
            return x.view(SymArray)
        return x
    a = np.empty((), dtype=object)
    a[()] = x
    return a.view(SymArray)


def _matmul(a, b):
    a, b = _plain(np.asarray(a) if not isinstance(a, np.ndarray) else a), _plain(np.asarray(b) if not isinstance(b, np.ndarray) else b)
    if a.ndim == 0 or b.ndim == 0:
        raise ValueError("matmul: Input operand does not have enough dimensions")
    if a.ndim > 2 or b.ndim > 2:
        # stacked matmul (numpy semantics): broadcast the leading axes, multiply the trailing matrices pairwise
        if a.ndim == 1 or b.ndim == 1:
            raise Unsupported("stacked matmul with a 1-D operand")
        if a.shape[-1] != b.shape[-2]:
            raise ValueError(f"matmul: Input operand 1 has a mismatch in its core dimension 0 (size {b.shape[-2]} is different from {a.shape[-1]})")
        lead = np.broadcast_shapes(a.shape[:-2], b.shape[:-2])
        ab = np.broadcast_to(a, lead + a.shape[-2:])
        bb = np.broadcast_to(b, lead + b.shape[-2:])
        r = np.empty(lead + (a.shape[-2], b.shape[-1]), dtype=object)
        for idx in np.ndindex(*lead):
            r[idx] = _plain(_matmul(ab[idx], bb[idx]))
        return r.view(SymArray)
    a2 = a if a.ndim > 1 else a.reshape(1, -1)
    b2 = b if b.ndim > 1 else b.reshape(-1, 1)
    if a2.shape[1] != b2.shape[0]:
        raise ValueError(
            f"matmul: Input operand 1 has a mismatch in its core dimension 0 (size {b2.shape[0]} is different from {a2.shape[1]})"
        )
    r = np.empty((a2.shape[0], b2.shape[1]), dtype=object)
    for i in range(a2.shape[0]):
        for j in range(b2.shape[1]):
            acc = 0.0
            for k in range(a2.shape[1]):
                x, y = _py(a2[i, k]), _py(b2[k, j])
                if not _is_sym(x) and x == 0 or not _is_sym(y) and y == 0:
                    continue
                acc = acc + x * y
            r[i, j] = acc
    if a.ndim == 1 and b.ndim == 1:
        return r[0, 0]
    if a.ndim == 1:
        r = r[0]
    elif b.ndim == 1:
        r = r[:, 0]
    return r.view(SymArray)


def _round(a, decimals=0, out=None):
    if decimals != 0:
        raise Unsupported("round with decimals")
    return np.rint(_wrap(np.asarray(a, dtype=object)) if not isinstance(a, np.ndarray) else a)


def _norm(x, ord=None, axis=None, keepdims=False):
    x = _plain(x if isinstance(x, np.ndarray) else np.asarray(x, dtype=object))
    if ord in (np.inf,):
        if axis is not None:
            raise Unsupported("inf-norm with axis")
        acc = None
        for e in x.ravel():
            acc = abs(_py(e)) if acc is None else _maximum(acc, abs(_py(e)))
        return acc
    if ord not in (None, 2, "fro"):
        raise Unsupported(f"norm ord={ord}")
    if ord == 2 and axis is None and x.ndim == 2:
        raise Unsupported("spectral norm")
    if axis is None:
        s = 0.0
        for e in x.ravel():
            e = _py(e)
            s = s + (_abs(e) ** 2 if isinstance(e, SymComplex) else e * e)
        # exact shortcut: the 2-norm of a vector with a single entry that is not the constant 0 is |entry| (no sqrt auxiliary)
        nz = [e for e in (_py(v) for v in x.ravel())
              if not ((isinstance(e, SymReal) and _is_const(e.t) and _const_fraction(e.t) == 0) or (not _is_sym(e) and e == 0))]
        if len(nz) == 1 and isinstance(nz[0], SymReal):
            r = abs(nz[0])
        else:
            n_defs = len(getattr(_CTX, "sqrt_defs", None) or ())
            r = sym_sqrt(s) if isinstance(s, SymReal) else math.sqrt(s)
            if isinstance(r, SymReal) and not _is_const(r.t) and len(getattr(_CTX, "sqrt_defs", None) or ()) > n_defs:
                # a new auxiliary r with r >= 0 and r*r == sum e_i^2: add the ground instances |e_i| <= r of "a component is
                # bounded by the norm" (implied by the definition; linear facts that spare the solver a non-linear derivation)
                for e in nz:
                    if isinstance(e, SymReal):
                        _CTX.add_axiom(z3.And(e.t <= r.t, -r.t <= e.t))
        if keepdims:
            out = np.empty((1,) * x.ndim, dtype=object)
            out.flat[0] = r
            return out.view(SymArray)
        return r
    sq = _wrap(x) * _wrap(x)
    s = np.add.reduce(sq, axis=axis, keepdims=keepdims)
    return np.sqrt(_wrap(s) if isinstance(s, np.ndarray) else s)


def _allclose(a, b, rtol=1e-05, atol=1e-08, equal_nan=False):
    r = _isclose(a, b, rtol, atol, equal_nan)
    return bool(np.all(r))


def _isclose(a, b, rtol=1e-05, atol=1e-08, equal_nan=False):
    a = _wrap(np.asarray(a, dtype=object))
    b = _wrap(np.asarray(b, dtype=object))
    return np.less_equal(np.absolute(a - b), atol + rtol * np.absolute(b))


def _array_equal(a, b, equal_nan=False):
    a = np.asarray(a, dtype=object) if not isinstance(a, np.ndarray) else a
    b = np.asarray(b, dtype=object) if not isinstance(b, np.ndarray) else b
    if a.shape != b.shape:
        return False
    conj = []
    for x, y in zip(_plain(a).ravel(), _plain(b).ravel()):
        x, y = _py(x), _py(y)
        if _is_sym(x) or _is_sym(y):
            conj.append(lift(x) == lift(y))
        elif x != y:
            return False
    if not conj:
        return True
    return bool(SymBool(z3.And(*conj)))


def _argext(a, axis, cmp):
    a = _plain(a)
    if axis is not None and a.ndim > 1:
        raise Unsupported("argmin/argmax with axis")
    flat = a.ravel()
    best = 0
    for k in range(1, flat.shape[0]):
        if _truth(cmp(_py(flat[k]), _py(flat[best]))):
            best = k
    return best


def _argmin(a, axis=None, out=None, **kw):
    return _argext(a, axis, _op.lt)


def _argmax(a, axis=None, out=None, **kw):
    return _argext(a, axis, _op.gt)


def _amax(a, axis=None, out=None, keepdims=False, **kw):
    return np.maximum.reduce(_wrap(a), axis=axis, keepdims=keepdims)


def _amin(a, axis=None, out=None, keepdims=False, **kw):
    return np.minimum.reduce(_wrap(a), axis=axis, keepdims=keepdims)


def _sum(a, axis=None, dtype=None, out=None, keepdims=False, **kw):
    return np.add.reduce(_wrap(a), axis=axis, keepdims=keepdims)


def _prod(a, axis=None, dtype=None, out=None, keepdims=False, **kw):
    return np.multiply.reduce(_wrap(a), axis=axis, keepdims=keepdims)


def _mean(a, axis=None, dtype=None, out=None, keepdims=False, **kw):
    a = _wrap(a)
    n = a.size if axis is None else a.shape[axis]
    return np.add.reduce(a, axis=axis, keepdims=keepdims) / n


def _where(cond, *xy):
    if not xy:
        c = cond
        if isinstance(c, np.ndarray) and c.dtype == object:
            cb = np.empty(c.shape, dtype=bool)
            cb.flat = [_truth(_py(v) != 0) if _is_sym(_py(v)) else bool(v) for v in _plain(c).ravel()]
            c = cb
        return np.nonzero(np.asarray(c))
    x, y = xy
    cond = np.asarray(_plain(cond)) if isinstance(cond, np.ndarray) else np.asarray(cond)
    xs = _plain(x) if isinstance(x, np.ndarray) else np.asarray(x, dtype=object)
    ys = _plain(y) if isinstance(y, np.ndarray) else np.asarray(y, dtype=object)
    bc = np.broadcast(cond, xs, ys)
    res = np.empty(bc.shape, dtype=object)
    i = 0
    for c, a, b in bc:
        c = _py(c)
        if isinstance(c, SymBool):
            res.flat[i] = SymReal(_simp(z3.If(c.t, lift(_py(a)), lift(_py(b)))))
        else:
            res.flat[i] = _py(a) if c else _py(b)
        i += 1
    return res.view(SymArray)


def _dot(a, b, out=None):
    if np.ndim(a) == 0 or np.ndim(b) == 0:
        return _wrap(a) * _wrap(b) if isinstance(a, np.ndarray) or isinstance(b, np.ndarray) else a * b
    return _matmul(a, b)


def _vdot(a, b):
    return _matmul(np.ravel(a), np.ravel(b))


def _inner(a, b):
    if np.ndim(a) == 1 and np.ndim(b) == 1:
        return _matmul(a, b)
    raise Unsupported("inner with ndim != 1")


def _outer(a, b, out=None):
    return np.multiply.outer(_wrap(np.ravel(a)), _wrap(np.ravel(b)))


def _diag(v, k=0):
    v = _plain(v)
    if k != 0:
        raise Unsupported("diag k != 0")
    if v.ndim == 1:
        n = v.shape[0]
        r = np.empty((n, n), dtype=object)
        r[...] = 0.0
        for i in range(n):
            r[i, i] = v[i]
        return r.view(SymArray)
    return np.array([v[i, i] for i in range(min(v.shape))], dtype=object).view(SymArray)


def _clip(a, a_min=None, a_max=None, out=None, **kw):
    r = _wrap(a)
    if a_min is not None:
        r = np.maximum(r, a_min)
    if a_max is not None:
        r = np.minimum(r, a_max)
    return r


def _real_f(a):
    return a.real


def _imag_f(a):
    return a.imag


def _nan_to_num(a, *args, **kw):
    return a


def _einsum(*a, **k):
    raise Unsupported("einsum on symbolic arrays")


def _all(a, axis=None, out=None, keepdims=False, **kw):
    if axis is not None:
        raise Unsupported("all(axis)")
    return all(_truth(_py(v) != 0) if _is_sym(_py(v)) else bool(v) for v in _plain(a).ravel())


def _any(a, axis=None, out=None, keepdims=False, **kw):
    if axis is not None:
        raise Unsupported("any(axis)")
    return any(_truth(_py(v) != 0) if _is_sym(_py(v)) else bool(v) for v in _plain(a).ravel())


def _count_nonzero(a, axis=None, **kw):
    if axis is not None:
        raise Unsupported("count_nonzero(axis)")
    return sum(1 for v in _plain(a).ravel() if (_truth(_py(v) != 0) if _is_sym(_py(v)) else bool(v)))


def _nonzero(a):
    c = _plain(a)
    cb = np.empty(c.shape, dtype=bool)
    cb.flat = [_truth(_py(v) != 0) if _is_sym(_py(v)) else bool(v) for v in c.ravel()]
    return np.nonzero(cb)


def _trace(a, *args, **kw):
    a = _plain(a)
    s = 0.0
    for i in range(min(a.shape)):
        s = s + a[i, i]
    return s


def _isreal(a):
    return np.ones(np.shape(a), dtype=bool)


def _iscomplexobj(a):
    return any(isinstance(e, SymComplex) for e in _plain(a).ravel())


def _cumsum(a, axis=None, **kw):
    a = _plain(a)
    if axis is not None and a.ndim > 1:
        raise Unsupported("cumsum(axis)")
    flat = a.ravel()
    out = np.empty(flat.shape, dtype=object)
    acc = 0.0
    for i, v in enumerate(flat):
        acc = acc + _py(v)
        out[i] = acc
    return out.view(SymArray)


def _linalg_solve(a, b):
    raise Unsupported("linalg.solve on symbolic arrays")


def _sort(a, *args, **kw):
    raise Unsupported("sort on symbolic arrays")


def _unique(a, *args, **kw):
    raise Unsupported("unique on symbolic arrays")


def as_symarray(a):
    """SymArray from nested lists / arrays of symbolic or concrete scalars (value-preserving)."""
    if isinstance(a, SymArray):
        return a
    if isinstance(a, np.ndarray):
        return _wrap(a) if a.dtype == object else SymArray(a)
    if isinstance(a, (list, tuple)):
        parts = [as_symarray(e) if isinstance(e, (list, tuple, np.ndarray)) else e for e in a]
        if parts and all(isinstance(e, np.ndarray) for e in parts):
            shape = parts[0].shape
            out = np.empty((len(parts), *shape), dtype=object)
            for i, e in enumerate(parts):
                out[i] = _plain(e)
            return out.view(SymArray)
        out = np.empty(len(parts), dtype=object)
        for i, e in enumerate(parts):
            out[i] = e
        return out.view(SymArray)
    return _wrap(a)


def sym_average(a, axis=None, **kw):
    """numpy.average for lists of symbolic arrays (module-level stub for code calling average(list))."""
    return _mean(as_symarray(a), axis=axis)


def sym_allclose(a, b, rtol=1e-05, atol=1e-08, equal_nan=False):
    return _allclose(as_symarray(a), as_symarray(b), rtol, atol, equal_nan)


_FUNCS = {
    np.round: _round, np.around: _round, np.linalg.norm: _norm, np.allclose: _allclose, np.isclose: _isclose,
    np.array_equal: _array_equal, np.argmin: _argmin, np.argmax: _argmax, np.amax: _amax, np.amin: _amin,
    np.max: _amax, np.min: _amin, np.sum: _sum, np.prod: _prod, np.mean: _mean, np.average: _mean,
    np.where: _where, np.dot: _dot, np.vdot: _vdot, np.inner: _inner, np.outer: _outer, np.diag: _diag,
    np.clip: _clip, np.real: _real_f, np.imag: _imag_f, np.nan_to_num: _nan_to_num, np.einsum: _einsum,
    np.all: _all, np.any: _any, np.count_nonzero: _count_nonzero, np.nonzero: _nonzero, np.trace: _trace,
    np.isreal: _isreal, np.iscomplexobj: _iscomplexobj, np.cumsum: _cumsum, np.linalg.solve: _linalg_solve,
    np.sort: _sort, np.unique: _unique, np.argsort: _sort,
}


# --------------------------------------------------------------------------------------------
# formulas usable in both modes
# --------------------------------------------------------------------------------------------
class Formula:
    """Helpers building property formulas: z3 terms symbolically, python bools concretely."""


def _alg_to_float(v):
    if z3.is_rational_value(v):
        return float(Fraction(v.numerator_as_long(), v.denominator_as_long()))
    if z3.is_int_value(v):
        return float(v.as_long())
    if z3.is_algebraic_value(v):
        return float(v.approx(20).as_fraction())
    raise ValueError(f"not a numeric value: {v}")


# --------------------------------------------------------------------------------------------
# contexts
# --------------------------------------------------------------------------------------------
class _BaseCtx:
    symbolic = True

    def __init__(self):
        self._patches = []

    # -- environment stubs, undone at the end of each path ---------------------------------
    def patch(self, obj, attr, value, symbolic_only=True):
        if symbolic_only and not self.symbolic:
            return
        had = attr in vars(obj) if not isinstance(obj, dict) else attr in obj
        old = (obj[attr] if isinstance(obj, dict) else getattr(obj, attr)) if had else None
        self._patches.append((obj, attr, had, old))
        if isinstance(obj, dict):
            obj[attr] = value
        else:
            setattr(obj, attr, value)

    def _undo_patches(self):
        while self._patches:
            obj, attr, had, old = self._patches.pop()
            if isinstance(obj, dict):
                if had:
                    obj[attr] = old
                else:
                    obj.pop(attr, None)
            elif had:
                setattr(obj, attr, old)
            else:
                try:
                    delattr(obj, attr)
                except AttributeError:
                    pass

    def reals(self, name, n):
        return self.array([self.real(f"{name}{i}") for i in range(n)])

    def matrix(self, name, m, n):
        return self.array([[self.real(f"{name}{i}_{j}") for j in range(n)] for i in range(m)])

    def check_eq(self, label, a, b):
        """Component-wise equality obligations between two (arrays of) values."""
        a = np.asarray(_plain(a) if isinstance(a, np.ndarray) else a, dtype=object)
        b = np.asarray(_plain(b) if isinstance(b, np.ndarray) else b, dtype=object)
        if a.shape != b.shape:
            if a.size == b.size and a.ndim <= 2 and b.ndim <= 2 and self.shape_lenient:
                a, b = a.ravel(), b.ravel()
            else:
                self.check(f"{label}:shape {a.shape} vs {b.shape}", self.false())
                return
        for idx in np.ndindex(a.shape):
            self.check(f"{label}{list(idx) if idx else ''}", self.eq(_py(a[idx]), _py(b[idx])))

    shape_lenient = False


class Explorer(_BaseCtx):
    """Symbolic mode: depth-first exploration of the feasible paths of a harness."""

    symbolic = True

    def __init__(self, max_paths=20000, max_decisions=400, query_timeout_ms=10000, wall_budget_s=600.0,
                 selftest_paths=2, seed=0):
        super().__init__()
        self.max_paths = max_paths
        self.max_decisions = max_decisions
        self.query_timeout_ms = query_timeout_ms
        self.wall_budget_s = wall_budget_s
        self.selftest_paths = selftest_paths
        self.seed = seed
        self.stats = dict(paths=0, decisions=0, aborted=0, queries=0, q_unsat=0, q_sat=0, q_unknown=0,
                          obligations=0, solver_s=0.0, reach_witness=0, assumed_pruned=0)
        self.violations = []   # dicts
        self.inconclusive = []  # strings
        self.samples = []
        self.path_models = []  # (decisions, model dict) for self-test / reachability
        self.vars = {}

    # -- inputs ------------------------------------------------------------------------------
    def real(self, name):
        v = z3.Real(name)
        self.vars[name] = v
        return SymReal(v)

    def array(self, data):
        return SymArray(data)

    def boolean(self, name):
        v = z3.Bool(name)
        self.vars[name] = v
        return SymBool(v)

    def choice(self, name, k):
        """A concrete integer in range(k) chosen by the solver (forks)."""
        if k <= 1:
            return 0
        v = z3.Int(name)
        self.vars[name] = v
        self.add_axiom(z3.And(v >= 0, v < k))
        for i in range(k - 1):
            if self.branch(v == i):
                return i
        return k - 1

    def flag(self, name):
        return bool(self.boolean(name))

    def fresh_aux(self, name):
        self._aux += 1
        nm = f"_{name}{self._aux}"
        v = z3.Real(nm)
        self.vars[nm] = v
        return SymReal(v)

    def uf(self, name, nargs):
        f = z3func(name, nargs)
        self.ufs[name] = (f, nargs)

        def call(*args):
            ts = [lift(_py(a)) for a in args]
            if any(t is None for t in ts):
                raise Unsupported(f"uninterpreted function {name} applied to a non-scalar")
            self.uf_calls.append((name, tuple(args)))
            return SymReal(f(*ts))

        call.__name__ = name
        return call

    def note_app(self, name, args, t):
        self.apps.setdefault(name, []).append((args, t))
        if name in ("exp", "log"):
            # ground instances of monotonicity / inverse axioms over the terms seen on this path
            for (a2, t2) in self.apps[name][:-1]:
                x, y = args[0], a2[0]
                self.add_axiom(z3.And(z3.Implies(x < y, t < t2), z3.Implies(x > y, t > t2), z3.Implies(x == y, t == t2)))
            if name == "log":
                self.add_axiom(z3.And(z3.Implies(args[0] == 1, t == 0), z3.Implies(args[0] > 1, t > 0)))
            if name == "exp":
                self.add_axiom(z3.And(z3.Implies(args[0] == 0, t == 1), z3.Implies(args[0] > 0, t > 1), z3.Implies(args[0] < 0, t < 1), t >= 1 + args[0]))
            other = "log" if name == "exp" else "exp"
            for (a2, t2) in self.apps.get(other, []):
                if name == "log":
                    self.add_axiom(z3.Implies(args[0] == t2, t == a2[0]))  # log(exp(a)) = a
                else:
                    self.add_axiom(z3.Implies(a2[0] == t, t2 == args[0]))

    # -- formulas ----------------------------------------------------------------------------
    def eq(self, a, b):
        if isinstance(a, (SymBool, bool, np.bool_)) and isinstance(b, (SymBool, bool, np.bool_)):
            return blift(a) == blift(b)
        if isinstance(a, SymComplex) or isinstance(b, SymComplex):
            pa, pb = SymComplex._parts(a), SymComplex._parts(b)
            return z3.And(lift(pa[0]) == lift(pb[0]), lift(pa[1]) == lift(pb[1]))
        if isinstance(a, (float, np.floating)) and isinstance(b, (float, np.floating)):
            return z3.BoolVal(bool(a == b) or bool(np.isnan(a) and np.isnan(b)))
        for v in (a, b):
            if isinstance(v, (float, np.floating)) and not np.isfinite(v):
                return z3.BoolVal(False)
        ta, tb = lift(a), lift(b)
        if ta is None or tb is None:
            return z3.BoolVal(bool(a == b))
        return ta == tb

    def le(self, a, b):
        return lift(a) <= lift(b)

    def lt(self, a, b):
        return lift(a) < lift(b)

    def and_(self, *fs):
        fs = [blift(f) for f in fs]
        return z3.And(*fs) if fs else z3.BoolVal(True)

    def or_(self, *fs):
        fs = [blift(f) for f in fs]
        return z3.Or(*fs) if fs else z3.BoolVal(False)

    def not_(self, f):
        return z3.Not(blift(f))

    def implies(self, p, q):
        return z3.Implies(blift(p), blift(q))

    def iff(self, p, q):
        return blift(p) == blift(q)

    def ite(self, c, a, b):
        return SymReal(z3.If(blift(c), lift(a), lift(b)))

    def true(self):
        return z3.BoolVal(True)

    def false(self):
        return z3.BoolVal(False)

    def is_int(self, a):
        t = lift(a)
        return t == z3.ToReal(z3.ToInt(t))

    # -- solver interaction ------------------------------------------------------------------
    def _check(self, extra=None):
        t0 = time.perf_counter()
        if extra is not None:
            self.solver.push()
            self.solver.add(extra)
        r = self.solver.check()
        m = self.solver.model() if r == z3.sat else None
        if extra is not None:
            self.solver.pop()
        self.stats["solver_s"] += time.perf_counter() - t0
        self.stats["queries"] += 1
        self.stats["q_" + str(r)] += 1
        return r, m

    def add_axiom(self, t):
        self.pc.append(t)
        self.solver.add(t)

    def assume(self, cond):
        t = blift(cond)
        t = _simp(t)
        if z3.is_true(t):
            return
        self.pc.append(t)
        self.solver.add(t)
        r, _ = self._check()
        if r == z3.unknown:
            raise Unsupported("solver unknown on an assumption")
        if r != z3.sat:
            self.stats["assumed_pruned"] += 1
            raise PathAbort

    def branch(self, t):
        t = _simp(t)
        if z3.is_true(t):
            return True
        if z3.is_false(t):
            return False
        hit = self._decided.get(t.get_id())
        if hit is not None:  # the very same condition was already decided on this path (it is in the path condition): no new decision
            return hit[1]
        if time.perf_counter() - self.t_start > self.wall_budget_s:
            raise Budget("wall budget")
        i = self.pos
        self.pos += 1
        if i >= self.max_decisions:
            raise Budget("decisions per path")
        if i < len(self.prefix):
            d = self.prefix[i]
        else:
            can_t, _ = self._check(t)
            can_f, _ = self._check(z3.Not(t))
            if can_t == z3.unknown:
                can_t = self._retry_unknown(z3.Not(t))[0]
            if can_f == z3.unknown:
                can_f = self._retry_unknown(t)[0]
            if can_t == z3.unknown or can_f == z3.unknown:
                raise Unsupported(f"solver unknown at a branch: {str(t)[:200]}")
            if can_t == z3.sat and can_f == z3.sat:
                d = True
                self.todo.append(list(self.trace) + [False])
            elif can_t == z3.sat:
                d = True
            elif can_f == z3.sat:
                d = False
            else:
                raise PathAbort
        self.trace.append(d)
        self.stats["decisions"] += 1
        c = t if d else z3.Not(t)
        self.pc.append(c)
        self.solver.add(c)
        nt = _simp(z3.Not(t))
        self._decided[t.get_id()] = (t, d)  # the terms are kept alive so that their ids stay unique
        self._decided[nt.get_id()] = (nt, not d)
        return d

    def check(self, label, formula):
        """Obligation: ``formula`` must be valid under the current path condition."""
        f = blift(formula)
        self.stats["obligations"] += 1
        fs = _simp(f)
        if z3.is_true(fs):
            self.stats["q_unsat"] += 1
            self.stats["trivial"] = self.stats.get("trivial", 0) + 1
            self._sample(label, f, "unsat(simplifier)")
            return True
        if z3.is_eq(fs) and fs.arg(0).sort() == z3.RealSort() and _has_div(fs):
            # equalities of rational expressions: first the cross-multiplied polynomial identity (a sufficient condition that
            # the simplifier usually closes at once), then the plain query
            try:
                from symgem.diff import cross_equal

                suff = cross_equal(SymReal(fs.arg(0)), SymReal(fs.arg(1)))
                saved = self.solver
                self.solver.set("timeout", max(2000, self.query_timeout_ms // 4))
                r3, _ = self._check(z3.Not(suff))
                self.solver.set("timeout", self.query_timeout_ms)
                if r3 == z3.unsat:
                    self._sample(label, f, "unsat(cross-multiplied)")
                    return True
            except (Unsupported, z3.Z3Exception):
                self.solver.set("timeout", self.query_timeout_ms)
        r, m = self._check(z3.Not(fs))
        if r == z3.unsat:
            self._sample(label, f, "unsat")
            return True
        if r == z3.unknown:
            self.recovered = getattr(self, "recovered", [])
            if len(self.recovered) < 5:
                self.recovered.append(label)
        if r == z3.unknown and z3.is_eq(fs) and fs.arg(0).sort() == z3.RealSort():
            # sufficient condition: the cross-multiplied polynomial identity with all divisors non-zero (symgem.diff.cross_equal)
            try:
                from symgem.diff import cross_equal

                suff = cross_equal(SymReal(fs.arg(0)), SymReal(fs.arg(1)))
                r3, _ = self._check(z3.Not(suff))
                if r3 == z3.unsat:
                    self._sample(label, f, "unsat(cross-multiplied)")
                    return True
            except (Unsupported, z3.Z3Exception):
                pass
        if r == z3.unknown and self._congruence_lemmas(fs):
            # equalities between applications of the same uninterpreted function whose arguments were proved equal by
            # cross-multiplication have been added as lemmas: ask again
            r, m = self._check(z3.Not(fs))
            if r == z3.unsat:
                self._sample(label, f, "unsat(congruence lemmas)")
                return True
        if r == z3.unknown:
            r2, m2 = self._retry_unknown(fs)
            if r2 == z3.unsat:
                self._sample(label, f, "unsat(retry)")
                return True
            if r2 == z3.sat:
                r, m = r2, m2
            else:
                self.inconclusive.append(f"unknown: {label}")
                return None
        if z3.is_eq(fs) and fs.arg(0).sort() == z3.RealSort():
            # prefer a counterexample that violates the equality by a margin: it survives the float64 replay tolerance
            a_, b_ = fs.arg(0), fs.arg(1)
            margin = z3.RealVal("1/1000")
            r4, m4 = self._check(z3.Or(a_ - b_ >= margin, b_ - a_ >= margin))
            if r4 == z3.sat:
                m = m4
        # two more, different, counterexamples: a model may fail to replay in float64 for incidental reasons (values that
        # coincide within the replay tolerance); the violation is confirmed if any of them reproduces
        alt = []
        try:
            self.solver.push()
            self.solver.add(z3.Not(fs))
            cur = m
            for _ in range(2):
                reals = [v for nm, v in self.vars.items() if z3.is_real(v) and not nm.startswith("_")][:12]
                if not reals:
                    break
                self.solver.add(z3.Or(*[v != cur.eval(v, model_completion=True) for v in reals]))
                t0 = time.perf_counter()
                rr = self.solver.check()
                self.stats["solver_s"] += time.perf_counter() - t0
                if rr != z3.sat:
                    break
                cur = self.solver.model()
                alt.append(self.model_dict(cur))
        except z3.Z3Exception:
            pass
        finally:
            self.solver.pop()
        self.violations.append(dict(kind="obligation", label=label, model=self.model_dict(m), decisions=list(self.trace),
                                    formula=str(f)[:2000], alt_models=alt))
        return False

    def _congruence_lemmas(self, fs, max_pairs=24):
        """For pairs F(a..), F(b..) of applications of one uninterpreted function occurring in ``fs``: if every a_i == b_i is
        implied by the path condition (checked through the cross-multiplied sufficient condition), add F(a..) == F(b..) to the
        solver.  Sound (each lemma is a consequence of the path condition); returns whether a lemma was added."""
        from symgem.diff import cross_equal

        apps, todo, seen = {}, [fs], set()
        while todo and len(seen) < 6000:
            u = todo.pop()
            if u.get_id() in seen:
                continue
            seen.add(u.get_id())
            if z3.is_app(u):
                if u.decl().kind() == z3.Z3_OP_UNINTERPRETED and u.num_args() > 0:
                    apps.setdefault(u.decl().name(), {})[u.get_id()] = u
                todo.extend(u.children())
        added, tried = False, 0
        self.solver.set("timeout", max(2000, self.query_timeout_ms // 5))
        try:
            for group in apps.values():
                terms = list(group.values())
                for i in range(len(terms)):
                    for j in range(i + 1, len(terms)):
                        if tried >= max_pairs:
                            return added
                        tried += 1
                        a, b = terms[i], terms[j]
                        try:
                            conds = [cross_equal(SymReal(x), SymReal(y)) for x, y in zip(a.children(), b.children()) if not x.eq(y)]
                        except (Unsupported, z3.Z3Exception):
                            continue
                        if all(self._check(z3.Not(c))[0] == z3.unsat for c in conds):
                            self.add_axiom(a == b)
                            added = True
        finally:
            self.solver.set("timeout", self.query_timeout_ms)
        return added

    def _retry_unknown(self, fs):
        """Second attempt: is ``pc and not fs`` satisfiable?  Fresh QF_NRA solver (nlsat), three times the time budget."""
        try:
            s = z3.SolverFor("QF_NRA")
            s.set("timeout", 3 * self.query_timeout_ms)
            for c in self.pc:
                s.add(c)
            s.add(z3.Not(fs))
            t0 = time.perf_counter()
            r = s.check()
            self.stats["solver_s"] += time.perf_counter() - t0
            self.stats["queries"] += 1
            return r, (s.model() if r == z3.sat else None)
        except z3.Z3Exception:
            return z3.unknown, None

    def _sample(self, label, f, verdict):
        if verdict == "unsat" and sum(1 for x in self.samples if x["verdict"] == "unsat") < 2:
            self.samples.insert(0, dict(label=label, path_condition=[str(c)[:160] for c in self.pc[:8]],
                                        obligation=str(f)[:400], verdict=verdict))
            return
        if len(self.samples) < 6 and (self.stats["obligations"] % 7 == 1 or len(self.samples) < 2):
            self.samples.append(dict(label=label, path_condition=[str(c)[:160] for c in self.pc[:8]],
                                     obligation=str(f)[:400], verdict=verdict))

    def model_dict(self, m):
        out = {"vars": {}, "ufs": {}}
        for name, v in self.vars.items():
            val = m.eval(v, model_completion=True)
            if z3.is_bool(val):
                out["vars"][name] = bool(z3.is_true(val))
            elif z3.is_int_value(val):
                out["vars"][name] = val.as_long()
            elif z3.is_rational_value(val):
                out["vars"][name] = f"{val.numerator_as_long()}/{val.denominator_as_long()}"
            else:
                try:
                    out["vars"][name] = repr(_alg_to_float(val))
                except Exception:
                    out["vars"][name] = "0"
        for name, (f, nargs) in self.ufs.items():
            tab = []
            seen = set()
            for (nm, args) in self.uf_calls:
                if nm != name:
                    continue
                try:
                    av = [m.eval(lift(_py(a)), model_completion=True) for a in args]
                    rv = m.eval(f(*[lift(_py(a)) for a in args]), model_completion=True)
                    key = tuple(str(a) for a in av)
                    if key in seen:
                        continue
                    seen.add(key)
                    tab.append(([_alg_to_float(a) for a in av], _alg_to_float(rv)))
                except Exception:
                    continue
            out["ufs"][name] = tab
        return out

    # -- driver ------------------------------------------------------------------------------
    def run(self, harness, cfg):
        global _CTX
        self.todo = [[]]
        self.t_start = time.perf_counter()
        self.exceptions = []
        n_selftest = 0
        while self.todo:
            self.prefix = self.todo.pop()
            self.pos = 0
            self.trace = []
            self.pc = []
            self._decided = {}
            self._aux = 0
            self.ufs = {}
            self.uf_calls = []
            self.apps = {}
            self.sqrt_defs = {}  # name of a sqrt auxiliary -> (radicand, canonical radicand, auxiliary), per path
            self.observed = []
            self.solver = z3.Solver()
            self.solver.set("timeout", self.query_timeout_ms)
            self.stats["paths"] += 1
            if self.stats["paths"] > self.max_paths:
                self.inconclusive.append("budget: max_paths")
                break
            _CTX = self
            try:
                harness(self, cfg)
            except PathAbort:
                self.stats["aborted"] += 1
                continue
            except Budget as e:
                self.inconclusive.append(f"budget: {e}")
                break
            except Unsupported as e:
                self.inconclusive.append(f"unsupported: {e} @ {_where_raised(e)}")
                continue
            except Exception as e:  # an ordinary exception escaping gemseo on a feasible path
                if _where_raised(e) == "?":
                    # no gemseo frame in the traceback: the harness itself failed -> harness error, never a property verdict
                    raise RuntimeError(f"harness code raised {type(e).__name__}: {e} @ {_tb_tail(e, 3)}") from e
                r, m = self._check()
                if r == z3.sat:
                    self.violations.append(dict(kind="exception", label=f"exception:{type(e).__name__}",
                                                exc_type=type(e).__name__, message=str(e)[:300], site=_where_raised(e), tb=_tb_tail(e),
                                                model=self.model_dict(m), decisions=list(self.trace)))
                else:
                    self.inconclusive.append(f"exception on a path of unknown feasibility: {type(e).__name__}: {e}")
                continue
            finally:
                _CTX = None
                self._undo_patches()
            # reachability twin: the obligation False must be refutable here, i.e. the path condition is satisfiable
            r, m = self._check()
            if r == z3.sat:
                self.stats["reach_witness"] += 1
                if n_selftest < self.selftest_paths:
                    n_selftest += 1
                    # up to three models of this path with different "random" values: the float64 replay of one model may
                    # legitimately leave the path (two distinct reals collapsing to one float, -0.0 ...); the self-test fails
                    # only if every one of them disagrees
                    alts = []
                    for attempt in range(3):
                        gm = self._generic_model(attempt)
                        alts.append(dict(model=self.model_dict(gm or m),
                                         observed=[(lab, _eval_obs(gm or m, val)) for lab, val in self.observed]))
                    self.path_models.append(dict(decisions=list(self.trace), model=alts[0]["model"], observed=alts[0]["observed"],
                                                 alternatives=alts[1:]))
            elif r == z3.unknown:
                # every decision and assumption of this path was checked satisfiable when it was taken and the axioms added
                # since (sqrt/exp auxiliaries) are conservative: the path is feasible by construction; only the model for the
                # differential self-test is missing
                self.stats["reach_witness"] += 1
                self.stats["final_model_unknown"] = self.stats.get("final_model_unknown", 0) + 1
        return self

    def observe(self, label, value):
        """Record a value returned by the code under test (used by the differential self-test)."""
        self.observed.append((label, value))

    def _generic_model(self, attempt=0):
        """A model of the path condition with as many variables as possible at 'random' rationals."""
        import random

        rng = random.Random(self.seed * 7919 + self.stats["paths"] + 104729 * attempt)
        self.solver.push()
        # Only the differential self-test uses this model (no verdict depends on it): each pinning query gets a short time-out and the
        # whole search a budget, after which the remaining variables keep the values the solver chooses (on a loaded machine the
        # pinning queries of one path were seen to add up to minutes).
        t_begin = time.perf_counter()
        budget_s = max(6.0, self.query_timeout_ms / 1000.0 / 2)
        self.solver.set("timeout", max(1500, self.query_timeout_ms // 10))
        try:
            names = list(self.vars.items())
            if attempt:
                rng.shuffle(names)
            free = []
            for name, v in names:
                if not z3.is_real(v) or name.startswith("_"):
                    continue
                if time.perf_counter() - t_begin > budget_s:
                    break
                val = z3.RealVal(f"{rng.randint(-40, 40)}/8")
                self.solver.push()
                self.solver.add(v == val)
                t0 = time.perf_counter()
                r = self.solver.check()
                self.stats["solver_s"] += time.perf_counter() - t0
                if r != z3.sat:
                    self.solver.pop()
                    free.append(v)
            # second pass over the variables that could not take their random value (typically a tolerance squeezed between two
            # residuals): left to the solver they sit ON a boundary of the path condition (tol == residual), where the float64
            # replay falls on either side by rounding; move each of them off the solver's value by a dyadic step if the path allows
            for v in free:
                if time.perf_counter() - t_begin > budget_s:
                    break
                t0 = time.perf_counter()
                r = self.solver.check()
                self.stats["solver_s"] += time.perf_counter() - t0
                if r != z3.sat:
                    break
                v0 = self.solver.model().eval(v, model_completion=True)
                if not z3.is_rational_value(v0):
                    continue
                for step in ("1/8", "-1/8", "1/64", "-1/64", "1/1024", "-1/1024"):
                    self.solver.push()
                    self.solver.add(v == v0 + z3.RealVal(step))
                    t0 = time.perf_counter()
                    r = self.solver.check()
                    self.stats["solver_s"] += time.perf_counter() - t0
                    if r == z3.sat:
                        break
                    self.solver.pop()
            self.solver.set("timeout", self.query_timeout_ms)
            r = self.solver.check()
            return self.solver.model() if r == z3.sat else None
        except z3.Z3Exception:
            return None
        finally:
            self.solver.set("timeout", self.query_timeout_ms)
            # unwind every push made above
            while self.solver.num_scopes() > 0:
                self.solver.pop()


def _eval_obs(m, val):
    arr = np.asarray(_plain(val) if isinstance(val, np.ndarray) else val, dtype=object)
    out = []
    for e in arr.ravel():
        e = _py(e)
        if isinstance(e, SymComplex):
            e = e.re
        t = lift(e) if not isinstance(e, (str, type(None))) else None
        if t is None:
            out.append(repr(e))
            continue
        try:
            out.append(_alg_to_float(m.eval(t, model_completion=True)))
        except Exception:
            out.append(None)
    return dict(shape=list(arr.shape), values=out)


def _tb_tail(e, n=6):
    import traceback

    return [f"{f.filename.split('/gemseo/')[-1]}:{f.lineno}:{f.name}" for f in traceback.extract_tb(e.__traceback__)[-n:]]


def _where_raised(e):
    tb = e.__traceback__
    site = "?"
    while tb is not None:
        fn = tb.tb_frame.f_code.co_filename
        if "/gemseo/" in fn:
            site = f"{fn.split('/gemseo/', 1)[1]}:{tb.tb_frame.f_code.co_name}"
        tb = tb.tb_next
    return site


class Replayer(_BaseCtx):
    """Concrete mode: the same harness on float64 with the values of a solver model."""

    symbolic = False

    def __init__(self, model, rtol=1e-9, atol=1e-12):
        super().__init__()
        self.model = model
        self.rtol, self.atol = rtol, atol
        self.results = []  # (label, bool)
        self.observed = []
        self._gen = {}

    def _val(self, name, default=0.0):
        v = self.model["vars"].get(name, default)
        if isinstance(v, str):
            return float(Fraction(v)) if "/" in v or v.lstrip("-").isdigit() else float(v)
        return v

    def real(self, name):
        return float(self._val(name))

    def array(self, data):
        return np.array(data, dtype=np.float64)

    def boolean(self, name):
        return bool(self._val(name, False))

    flag = boolean

    def choice(self, name, k):
        if k <= 1:
            return 0
        return int(self._val(name, 0))

    def uf(self, name, nargs):
        table = self.model["ufs"].get(name, [])
        h = int(hashlib.sha256(name.encode()).hexdigest()[:12], 16)
        coef = [((h >> (3 * j)) % 7 + 1) / 4.0 for j in range(nargs)]
        coef2 = [((h >> (3 * j + 1)) % 5 + 1) / 8.0 for j in range(nargs)]
        const = (h % 11) / 3.0

        def call(*args):
            args = [float(np.real(a)) for a in args]
            for targs, val in table:
                if all(abs(a - b) <= 1e-9 * max(1.0, abs(b)) for a, b in zip(args, targs)):
                    return val
            return const + sum(c * a for c, a in zip(coef, args)) + sum(c * a * a for c, a in zip(coef2, args))

        call.__name__ = name
        return call

    def assume(self, cond):
        if not bool(cond):
            raise PathAbort

    def add_axiom(self, t):
        pass

    def observe(self, label, value):
        self.observed.append((label, np.array(value, dtype=float).copy() if not isinstance(value, str) else value))

    # formulas
    def eq(self, a, b):
        if isinstance(a, (bool, np.bool_)) and isinstance(b, (bool, np.bool_)):
            return bool(a) == bool(b)
        try:
            a, b = complex(a), complex(b)
        except (TypeError, ValueError):
            return a == b
        if a != a and b != b:
            return True
        if a == b:
            return True
        return abs(a - b) <= self.atol + self.rtol * max(abs(a), abs(b))

    def le(self, a, b):
        return bool(a <= b) or self.eq(a, b)

    def lt(self, a, b):
        return bool(a < b) and not self.eq(a, b)

    def and_(self, *fs):
        return all(bool(f) for f in fs)

    def or_(self, *fs):
        return any(bool(f) for f in fs)

    def not_(self, f):
        return not bool(f)

    def implies(self, p, q):
        return (not bool(p)) or bool(q)

    def iff(self, p, q):
        return bool(p) == bool(q)

    def ite(self, c, a, b):
        return a if bool(c) else b

    def true(self):
        return True

    def false(self):
        return False

    def is_int(self, a):
        return float(a) == round(float(a))

    def check(self, label, formula):
        ok = bool(formula)
        self.results.append((label, ok))
        return ok

    def run(self, harness, cfg):
        self.exception = None
        try:
            harness(self, cfg)
        except PathAbort:
            self.exception = "PathAbort"
        except Exception as e:
            self.exception = dict(exc_type=type(e).__name__, message=str(e)[:300], site=_where_raised(e))
        finally:
            self._undo_patches()
        return self
