"""Symbolic differentiation of the z3 real terms built by SYMNP (trusted base of the derivative oracles, DESIGN 1.4).

``d(term, var, sqrt_defs)`` returns the z3 term of the partial derivative of ``term`` w.r.t. the z3 real constant
``var``.  Supported: numerals, constants, ``+ - * /``, unary minus, powers with an integer numeral exponent, ``If``
(derivative of the taken branch: valid in the interior of each branch region), ``ToReal`` of integers (0), the
engine's uninterpreted ``exp/log/pow`` applications by rule, the engine's ``sqrt`` auxiliaries (``sqrt_defs`` maps the
name of the auxiliary ``s`` to its radicand ``t``, with ``s >= 0, s*s == t`` in the path condition:
``ds = dt / (2 s)``), and user uninterpreted functions through ``rules[name] = [name of dF/darg_k, ...]``.
Anything else raises :class:`Unsupported` (inconclusive, never a silent zero).

Divisions introduced by the rules (``/(2 s)``, ``/u`` for ``log u``) are total uninterpreted-at-zero z3 divisions:
an obligation using them must be stated away from the zeros (the harness assumes them non-zero).

``validate(term, var, dterm, sqrt_defs)`` re-derives the derivative with ``sympy.diff`` and compares both at random
rational points in 30-digit arithmetic; ``selftest()`` checks a few closed forms.  ``python -m symgem.diff`` runs it.
"""
from __future__ import annotations

import random
from fractions import Fraction

import z3

from symgem.core import Unsupported, _const_fraction, _is_const, lift, z3func

_ZERO, _ONE = z3.RealVal(0), z3.RealVal(1)


def _is0(t):
    return _is_const(t) and _const_fraction(t) == 0


def _is1(t):
    return _is_const(t) and _const_fraction(t) == 1


def _mul(a, b):
    if _is0(a) or _is0(b):
        return _ZERO
    return b if _is1(a) else a if _is1(b) else a * b


def _add(a, b):
    return b if _is0(a) else a if _is0(b) else a + b


def d(term, var, sqrt_defs=None, rules=None, _memo=None):
    """Partial derivative of the z3 real ``term`` with respect to the z3 real constant ``var``."""
    sqrt_defs = sqrt_defs or {}
    memo = {} if _memo is None else _memo

    def rec(t):
        key = t.get_id()
        if key not in memo:
            memo[key] = (t, _d(t))  # keep t alive: ids are recycled otherwise
        return memo[key][1]

    def _d(t):
        if _is_const(t):
            return _ZERO
        if not z3.is_app(t):
            raise Unsupported(f"diff: not an application: {t}")
        k, ch = t.decl().kind(), t.children()
        if k == z3.Z3_OP_UNINTERPRETED and not ch:
            if z3.eq(t, var):
                return _ONE
            rad = sqrt_defs.get(t.decl().name())
            return _ZERO if rad is None else rec(rad) / (2 * t)
        if k == z3.Z3_OP_ADD:
            r = _ZERO
            for c in ch:
                r = _add(r, rec(c))
            return r
        if k == z3.Z3_OP_SUB:
            r = rec(ch[0])
            for c in ch[1:]:
                dc = rec(c)
                r = r if _is0(dc) else r - dc
            return r
        if k == z3.Z3_OP_UMINUS:
            return _mul(z3.RealVal(-1), rec(ch[0]))
        if k == z3.Z3_OP_MUL:
            r = _ZERO
            for i, c in enumerate(ch):
                p = rec(c)
                for j, o in enumerate(ch):
                    if j != i:
                        p = _mul(p, o)
                r = _add(r, p)
            return r
        if k == z3.Z3_OP_DIV:
            a, b = ch
            da, db = rec(a), rec(b)
            if _is0(db):
                return _ZERO if _is0(da) else da / b
            return (_mul(da, b) - _mul(a, db)) / (b * b)
        if k == z3.Z3_OP_POWER:
            a, e = ch
            if not (_is_const(e) and _const_fraction(e).denominator == 1):
                raise Unsupported(f"diff: non-integer power {e}")
            n = int(_const_fraction(e))
            if n == 0:
                return _ZERO
            return _mul(_mul(z3.RealVal(n), a ** (n - 1) if n != 1 else _ONE), rec(a))
        if k == z3.Z3_OP_ITE:
            da, db = rec(ch[1]), rec(ch[2])
            return _ZERO if _is0(da) and _is0(db) else z3.If(ch[0], da, db)
        if k == z3.Z3_OP_TO_REAL:
            return _ZERO
        if k == z3.Z3_OP_UNINTERPRETED:
            name = t.decl().name()
            if name == "exp" and len(ch) == 1:
                return _mul(t, rec(ch[0]))
            if name == "log" and len(ch) == 1:
                du = rec(ch[0])
                return _ZERO if _is0(du) else du / ch[0]
            if name == "pow" and len(ch) == 2:  # a**b = exp(b log a):  a**b * (b' log a + b a'/a)
                a, b = ch
                da, db = rec(a), rec(b)
                inner = _add(_mul(db, z3func("log", 1)(a)) if not _is0(db) else _ZERO, _ZERO if _is0(da) else _mul(b, da) / a)
                return _mul(t, inner)
            if rules and name in rules:
                r = _ZERO
                for c, dname in zip(ch, rules[name]):
                    dc = rec(c)
                    if not _is0(dc):
                        r = _add(r, _mul(z3func(dname, len(ch))(*ch), dc))
                return r
            raise Unsupported(f"diff: uninterpreted function {name}")
        raise Unsupported(f"diff: operator {t.decl().name()}")

    return z3.simplify(rec(term))


def term_of(v):
    """z3 term of a harness scalar (SymReal, python/numpy number)."""
    t = lift(v)
    if t is None:
        raise Unsupported(f"diff: not a scalar: {v!r}")
    return t


# --------------------------------------------------------------------------------------------------------------
# cross-multiplication: a sufficient condition for the equality of two rational expressions
# --------------------------------------------------------------------------------------------------------------
def _factors(t):
    """(rational coefficient, [(factor term, multiplicity)]) with t == coefficient * prod(factor**multiplicity)."""
    if _is_const(t):
        return _const_fraction(t), []
    k = t.decl().kind() if z3.is_app(t) else None
    if k == z3.Z3_OP_MUL:
        coef, fs = Fraction(1), []
        for c in t.children():
            cc, cf = _factors(c)
            coef *= cc
            fs += cf
        return coef, fs
    if k == z3.Z3_OP_UMINUS:
        cc, cf = _factors(t.children()[0])
        return -cc, cf
    if k == z3.Z3_OP_POWER:
        a, e = t.children()
        if _is_const(e) and _const_fraction(e).denominator == 1 and _const_fraction(e) > 0:
            cc, cf = _factors(a)
            n = int(_const_fraction(e))
            return cc ** n, [(f, m * n) for f, m in cf]
    return Fraction(1), [(t, 1)]


class _Den(dict):
    """Multiset of denominator factors: id -> [term, multiplicity]."""

    def add(self, f, m=1):
        e = self.setdefault(f.get_id(), [f, 0])
        e[1] += m

    def lcm(self, other):
        r = _Den({k: list(v) for k, v in self.items()})
        for k, (f, m) in other.items():
            e = r.setdefault(k, [f, 0])
            e[1] = max(e[1], m)
        return r

    def over(self, sub):
        """Product term of the factors of self that are missing from ``sub`` (self / sub)."""
        p = _ONE
        for k, (f, m) in self.items():
            for _ in range(m - (sub[k][1] if k in sub else 0)):
                p = _mul(p, f)
        return p


def _ratval(fr):
    return z3.RealVal(f"{fr.numerator}/{fr.denominator}")


def _nd(t, memo):
    """(num, den) with t == num / prod(den) wherever every factor of den (and of the denominators met inside) is non-zero."""
    key = t.get_id()
    if key in memo:
        return memo[key][1]
    k, ch = (t.decl().kind(), t.children()) if z3.is_app(t) else (None, [])
    if k in (z3.Z3_OP_ADD, z3.Z3_OP_SUB):
        parts = [_nd(c, memo) for c in ch]
        den = _Den()
        for _, dd in parts:
            den = den.lcm(dd)
        num = None
        for i, (n, dd) in enumerate(parts):
            term = _mul(n, den.over(dd))
            num = term if num is None else (num + term if k == z3.Z3_OP_ADD else num - term)
        res = (num, den)
    elif k == z3.Z3_OP_UMINUS:
        n, dd = _nd(ch[0], memo)
        res = (-n, dd)
    elif k == z3.Z3_OP_MUL:
        num, den = _ONE, _Den()
        for c in ch:
            n, dd = _nd(c, memo)
            num = _mul(num, n)
            for f, m in dd.values():
                den.add(f, m)
        res = (num, den)
    elif k == z3.Z3_OP_DIV:
        (na, da), (nb, db) = _nd(ch[0], memo), _nd(ch[1], memo)
        coef, fs = _factors(z3.simplify(nb))
        if coef == 0:
            res = (t, _Den())
        else:
            den = _Den({kk: list(v) for kk, v in da.items()})
            for f, m in fs:
                den.add(f, m)
            for f, m in list(fs) + [tuple(v) for v in db.values()]:  # every divisor met must be non-zero, also those that cancel
                memo.setdefault("nz", {})[f.get_id()] = f
            res = (_mul(_mul(na, db.over(_Den())), _ratval(1 / coef)), den)
    elif k == z3.Z3_OP_POWER and _is_const(ch[1]) and _const_fraction(ch[1]).denominator == 1 and _const_fraction(ch[1]) > 0:
        n, dd = _nd(ch[0], memo)
        e = int(_const_fraction(ch[1]))
        den = _Den()
        for f, m in dd.values():
            den.add(f, m * e)
        res = (n ** e if e != 1 else n, den)
    elif k == z3.Z3_OP_ITE:
        (na, da), (nb, db) = _nd(ch[1], memo), _nd(ch[2], memo)
        den = da.lcm(db)
        res = (z3.If(ch[0], _mul(na, den.over(da)), _mul(nb, den.over(db))), den)
    else:
        res = (t, _Den())  # atom (variable, numeral, uninterpreted application, ...)
    memo[key] = (t, res)
    return res


def cross_equal(a, b):
    """A z3 formula F with  F => (a == b):  all denominators non-zero and the cross-multiplied polynomial identity.

    Meant as a *hint*: ``Or(F, a == b)`` is equivalent to ``a == b`` but lets the solver (often the simplifier alone) close
    equalities of rational expressions without reasoning about divisions.
    """
    ta, tb = term_of(a), term_of(b)
    memo = {}
    (na, da), (nb, db) = _nd(ta, memo), _nd(tb, memo)
    den = da.lcm(db)
    poly = z3.simplify(_mul(na, den.over(da)) - _mul(nb, den.over(db)), som=True)
    nz = dict(memo.get("nz", {}))
    nz.update({f.get_id(): f for f, m in den.values()})
    # divisions inside atoms (arguments of exp/log, conditions) are left alone: atoms are compared as they are
    return z3.And(*[f != 0 for f in nz.values()], poly == 0)


def sqrt_defs_of(ctx):
    """{name of a sqrt auxiliary: radicand term} recorded by the engine on the current path."""
    return {nm: v[0] for nm, v in getattr(ctx, "sqrt_defs", {}).items()}


def jacobian(ctx, values, xs, check_with_sympy=False, rules=None):
    """[[d values[i] / d xs[j]]] as SymReals, for harness scalars ``values`` and symbolic input variables ``xs``.

    Call it after the code that produced ``values`` ran (its sqrt auxiliaries are read from ``ctx``).  With
    ``check_with_sympy`` every derivative is cross-checked with sympy (:func:`validate`); a disagreement raises
    ``AssertionError`` (an engine failure: harness error, never a property verdict).
    """
    from symgem.core import SymReal

    defs = sqrt_defs_of(ctx)
    out = []
    for i, v in enumerate(values):
        t, row = term_of(v), []
        for j, xj in enumerate(xs):
            var = term_of(xj)
            if not (z3.is_const(var) and var.decl().kind() == z3.Z3_OP_UNINTERPRETED):
                raise Unsupported(f"diff: not an input variable: {var}")
            dt = d(t, var, defs, rules)
            if check_with_sympy:
                ok, detail = validate(t, var, dt, defs, seed=7 * i + j)
                if not ok:
                    raise AssertionError(f"symgem.diff disagrees with sympy: {detail}")
            row.append(SymReal(dt))
        out.append(row)
    return out


# --------------------------------------------------------------------------------------------------------------
# validation against sympy
# --------------------------------------------------------------------------------------------------------------
def to_sympy(t, sqrt_defs=None, _memo=None):
    """sympy expression of a z3 real/bool term (sqrt auxiliaries are expanded into ``sqrt(radicand)``)."""
    import sympy as sp

    sqrt_defs = sqrt_defs or {}
    memo = {} if _memo is None else _memo

    def rec(t):
        key = t.get_id()
        if key not in memo:
            memo[key] = (t, conv(t))
        return memo[key][1]

    def conv(t):
        if _is_const(t):
            fr = _const_fraction(t)
            return sp.Rational(fr.numerator, fr.denominator)
        k, ch = t.decl().kind(), t.children()
        a = [rec(c) for c in ch]
        if k == z3.Z3_OP_UNINTERPRETED and not ch:
            name = t.decl().name()
            return sp.sqrt(rec(sqrt_defs[name])) if name in sqrt_defs else sp.Symbol(name, real=True)
        if k == z3.Z3_OP_ADD:
            return sp.Add(*a)
        if k == z3.Z3_OP_SUB:
            return a[0] - sp.Add(*a[1:])
        if k == z3.Z3_OP_UMINUS:
            return -a[0]
        if k == z3.Z3_OP_MUL:
            return sp.Mul(*a)
        if k == z3.Z3_OP_DIV:
            return a[0] / a[1]
        if k == z3.Z3_OP_POWER:
            return a[0] ** a[1]
        if k == z3.Z3_OP_ITE:
            return sp.Piecewise((a[1], a[0]), (a[2], True))
        if k == z3.Z3_OP_TO_REAL:
            return a[0]
        if k == z3.Z3_OP_UNINTERPRETED:
            name = t.decl().name()
            if name == "exp":
                return sp.exp(a[0])
            if name == "log":
                return sp.log(a[0])
            if name == "pow":
                return a[0] ** a[1]
            return sp.Function(name)(*a)
        rel = {z3.Z3_OP_LE: sp.Le, z3.Z3_OP_LT: sp.Lt, z3.Z3_OP_GE: sp.Ge, z3.Z3_OP_GT: sp.Gt, z3.Z3_OP_EQ: sp.Eq, z3.Z3_OP_DISTINCT: sp.Ne,
               z3.Z3_OP_AND: sp.And, z3.Z3_OP_OR: sp.Or, z3.Z3_OP_NOT: sp.Not}.get(k)
        if rel is not None:
            return rel(*a)
        if k == z3.Z3_OP_TRUE:
            return sp.true
        if k == z3.Z3_OP_FALSE:
            return sp.false
        raise Unsupported(f"to_sympy: operator {t.decl().name()}")

    return rec(t)


def validate(term, var, dterm, sqrt_defs=None, n_points=3, seed=0):
    """``dterm`` (from :func:`d`) agrees with ``sympy.diff(term, var)`` at random rational points.  Returns (ok, detail)."""
    import sympy as sp

    e = to_sympy(term, sqrt_defs)
    mine = to_sympy(dterm, sqrt_defs)
    theirs = sp.diff(e, sp.Symbol(var.decl().name(), real=True))
    syms = sorted(e.free_symbols | mine.free_symbols, key=lambda s: s.name)
    rng = random.Random(seed)
    good = 0
    for _ in range(4 * n_points):
        pt = {s: sp.Rational(rng.randint(1, 59), rng.choice((7, 8, 9, 11, 13))) * rng.choice((1, 1, -1)) for s in syms}
        try:
            a, b = complex(sp.N(mine.subs(pt), 30)), complex(sp.N(theirs.subs(pt), 30))
        except (TypeError, ValueError, ZeroDivisionError):
            continue
        if a != a or b != b or abs(a) == float("inf") or abs(b) == float("inf"):
            continue
        if abs(a - b) > 1e-12 * max(1.0, abs(a), abs(b)):
            return False, f"diff {a} vs sympy {b} at {pt}: d/d{var} of {str(term)[:200]}"
        good += 1
        if good >= n_points:
            break
    return (good >= min(2, n_points)), f"{good} points"


def selftest():
    """[(label, ok)] on closed forms: d() against hand-written derivatives (proved by z3) and against sympy."""
    x, y, s = z3.Real("x"), z3.Real("y"), z3.Real("_sqrt1")
    defs = {"_sqrt1": x * x + y * y + 1}
    E, L, P = z3func("exp", 1), z3func("log", 1), z3func("pow", 2)
    F = z3func("F", 2)
    cases = [
        ("poly", x * x * x * y - 3 * x + 2, 3 * x * x * y - 3, {}),
        ("power", (x + y) ** 3, 3 * (x + y) ** 2, {}),
        ("quotient", (x + 1) / (y * x + 2), ((y * x + 2) - (x + 1) * y) / ((y * x + 2) * (y * x + 2)), {}),
        ("sqrt-aux", 3 * s, 3 * x / s, defs),
        ("inverse-sqrt", 1 / s, -x / (s * s * s), defs),
        ("exp", E(-(x * x) / y), E(-(x * x) / y) * (-2 * x / y), {}),
        ("log", x * x * L(x * y), 2 * x * L(x * y) + x, {}),
        ("pow-const-exponent", P(x * y, z3.RealVal("3/2")), z3.RealVal("3/2") * P(x * y, z3.RealVal("3/2")) / x, {}),
        ("ite", z3.If(x > y, x * x, -x), z3.If(x > y, 2 * x, z3.RealVal(-1)), {}),
        ("const", y * 7 + s - s, z3.RealVal(0), defs),
        ("uf-rule", F(x * x, y), z3func("dF0", 2)(x * x, y) * 2 * x, {}),
    ]
    out = []
    for label, t, expected, sd in cases:
        got = d(t, x, sd, rules={"F": ["dF0", "dF1"]})
        sol = z3.Solver()
        sol.set("timeout", 10000)
        sol.add(x > 0, y > 0, x * y != -2)
        if sd:
            sol.add(s > 0, s * s == sd["_sqrt1"])
        sol.add(got != expected)
        out.append((f"diff:{label} equals the closed form", sol.check() == z3.unsat))
        if label != "uf-rule":
            ok, detail = validate(t, x, got, sd)
            out.append((f"diff:{label} agrees with sympy ({detail})", ok))
    # cross_equal(a, b) implies a == b, closes a typical quotient identity, and does not hide a division by zero
    a, b = (x / s) * (s * y), x * y
    Fm = cross_equal(a, b)
    sol = z3.Solver()
    sol.add(Fm, a != b)
    out.append(("diff:cross_equal implies equality", sol.check() == z3.unsat))
    sol = z3.Solver()
    sol.add(s > 0, z3.Not(Fm))
    out.append(("diff:cross_equal closes (x/s)*(s*y) == x*y for s > 0", sol.check() == z3.unsat))
    sol = z3.Solver()
    sol.add(s == 0, cross_equal(x / (y / s), (x * s) / y))
    out.append(("diff:cross_equal requires inner divisors to be non-zero", sol.check() == z3.unsat))
    sol = z3.Solver()
    sol.add(x > 0, y > 0, cross_equal(x / y + 1, (x + 2 * y) / y))
    out.append(("diff:cross_equal rejects a wrong identity", sol.check() == z3.unsat))
    # a wrong derivative must be rejected by validate (the validator is not vacuous)
    ok, _ = validate(x * x * y, x, x * y, {})
    out.append(("diff:validator rejects a wrong derivative", not ok))
    try:
        d(z3.ToReal(z3.ToInt(x)) * x + z3func("G", 1)(x), x)
        out.append(("diff:unknown function is refused", False))
    except Unsupported:
        out.append(("diff:unknown function is refused", True))
    return out


if __name__ == "__main__":
    res = selftest()
    for lab, ok in res:
        print("ok  " if ok else "FAIL", lab)
    raise SystemExit(0 if all(ok for _, ok in res) else 1)
