"""CrossHair side-car: run PEP-316 contract targets in parallel subprocesses and map the output to verdicts.

``run_targets(targets, tier)`` takes a list of ``dict(file=<abs path of a contract file under /verif/crosshair>,
function=<name of a function in that file>, timeout=<per-condition timeout in seconds>)`` and returns a list of
``dict(target=str, verdict="confirmed"|"refuted"|"inconclusive", detail=str)``:

* only ``Confirmed over all paths`` on *every* reported condition of the function is ``confirmed``;
* a counterexample (a crosshair ``error:`` line) is ``refuted`` and ``detail`` carries crosshair's message;
* everything else (``Not confirmed``, ``Unable to meet precondition``, no report, time-out, a crash of crosshair,
  a missing file/function) is ``inconclusive``.

The contract files call the *real* gemseo functions: the subprocess gets ``PYTHONPATH=${VERIF_REPO:-/repo}/src:/verif``.
"""
from __future__ import annotations

import ast
import os
import re
import subprocess
import sys
from concurrent.futures import ThreadPoolExecutor
from pathlib import Path

VERIF = Path(__file__).resolve().parent.parent
CONFIRMED = "Confirmed over all paths"
_INCONCLUSIVE_MARKS = ("Not confirmed", "Unable to meet precondition")
# crosshair message line: <file>:<line>: <level>: <message>
_LINE = re.compile(r"^(?P<file>.*?):(?P<line>\d+): (?P<level>error|info|warning): (?P<msg>.*)$")


def _env():
    env = dict(os.environ)
    repo = Path(os.environ.get("VERIF_REPO", "/repo")).resolve()
    parts = [str(repo / "src"), str(VERIF)]
    if env.get("PYTHONPATH"):
        parts.append(env["PYTHONPATH"])
    env["PYTHONPATH"] = os.pathsep.join(parts)
    env.setdefault("PYTHONWARNINGS", "ignore")
    env["PYTHONDONTWRITEBYTECODE"] = "1"
    env["PYTHONHASHSEED"] = "0"
    return env


def function_span(file, function):
    """(first line, last line) of the top-level function ``function`` in ``file`` (None when absent)."""
    tree = ast.parse(Path(file).read_text(), filename=str(file))
    for node in tree.body:
        if isinstance(node, (ast.FunctionDef, ast.AsyncFunctionDef)) and node.name == function:
            return node.lineno, node.end_lineno
    return None


def classify(output, returncode=None):
    """Map the text printed by ``crosshair check --report_all`` for ONE function to (verdict, detail)."""
    errors, confirmed, weak, other = [], [], [], []
    for raw in output.splitlines():
        m = _LINE.match(raw.strip())
        if not m:
            if raw.strip():
                other.append(raw.strip())
            continue
        msg = m.group("msg")
        if m.group("level") == "error":
            errors.append(f"line {m.group('line')}: {msg}")
        elif CONFIRMED in msg:
            confirmed.append(msg)
        elif any(k in msg for k in _INCONCLUSIVE_MARKS):
            weak.append(f"line {m.group('line')}: {msg}")
        else:
            other.append(f"line {m.group('line')}: {msg}")
    if errors:
        return "refuted", "; ".join(errors)[:1500]
    if confirmed and not weak and not other and returncode in (0, None):
        return "confirmed", f"{len(confirmed)} condition(s): {CONFIRMED}"
    if weak:
        return "inconclusive", "; ".join(weak)[:1500]
    if other:
        return "inconclusive", ("unrecognised crosshair output: " + " | ".join(other))[:1500]
    return "inconclusive", f"crosshair reported nothing (exit code {returncode})"


def run_target(target, tier="quick"):
    file = str(target["file"])
    function = target["function"]
    timeout = float(target.get("timeout", 30))
    name = f"{Path(file).name}:{function}"
    try:
        span = function_span(file, function)
    except (OSError, SyntaxError) as e:
        return dict(target=name, verdict="inconclusive", detail=f"cannot read the contract file: {type(e).__name__}: {e}")
    if span is None:
        return dict(target=name, verdict="inconclusive", detail="no such top-level function in the contract file")
    cmd = [sys.executable, "-m", "crosshair", "check", "--report_all", "--per_condition_timeout", str(int(timeout)),
           f"{file}:{span[0]}"]
    # wall cap for the subprocess: every condition of the function gets `timeout`, plus start-up time
    n_cond = max(1, target.get("conditions", 1))
    wall = timeout * n_cond + 45.0
    try:
        p = subprocess.run(cmd, capture_output=True, text=True, timeout=wall, env=_env(), cwd=str(VERIF))
    except subprocess.TimeoutExpired:
        return dict(target=name, verdict="inconclusive", detail=f"crosshair did not finish within {wall:.0f}s")
    except OSError as e:
        return dict(target=name, verdict="inconclusive", detail=f"cannot start crosshair: {e}")
    out = (p.stdout or "") + ("\n" + p.stderr if p.stderr else "")
    if p.returncode not in (0, 1):
        verdict, detail = "inconclusive", f"crosshair exit code {p.returncode}: {out.strip()[-800:]}"
        if classify(p.stdout or "", p.returncode)[0] == "refuted":  # a counterexample was nevertheless printed
            verdict, detail = classify(p.stdout or "", p.returncode)
        return dict(target=name, verdict=verdict, detail=detail)
    verdict, detail = classify(p.stdout or "", p.returncode)
    if verdict != "refuted" and p.stderr and p.stderr.strip() and "Traceback" in p.stderr:
        verdict, detail = "inconclusive", f"crosshair wrote an error: {p.stderr.strip()[-800:]}"
    return dict(target=name, verdict=verdict, detail=detail)


def run_targets(targets, tier="quick", jobs=None):
    """Run every target in its own subprocess (in parallel), results in the order of ``targets``."""
    targets = list(targets)
    if not targets:
        return []
    jobs = jobs or int(os.environ.get("VERIF_JOBS", "0") or 0) or min(16, os.cpu_count() or 1)
    with ThreadPoolExecutor(max_workers=max(1, min(jobs, len(targets)))) as pool:
        return list(pool.map(lambda t: run_target(t, tier), targets))


if __name__ == "__main__":  # python -m symgem.crosshair_run FILE FUNCTION [TIMEOUT]
    import json

    f, fn = sys.argv[1], sys.argv[2]
    print(json.dumps(run_targets([dict(file=str(Path(f).resolve()), function=fn, timeout=float(sys.argv[3]) if len(sys.argv) > 3 else 30)]), indent=1))
