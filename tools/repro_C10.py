"""Stand-alone reproduction (public API, plain float64) of the C10 findings on the unchanged tree.  Run: /venv/bin/python /verif/tools/repro_C10.py

A. aggregation/core.py scales the caller's constraint values / Jacobian IN PLACE (`orig_val *= scale`, `orig_jac *= scale`) when
   `indices` is None: compute_upper_bound_ks_agg, compute_lower_bound_ks_agg, compute_total_ks_agg_jac, compute_partial_ks_agg_jac,
   compute_iks_agg, compute_total_iks_agg_jac, compute_partial_iks_agg_jac, compute_max_agg, compute_max_agg_jac.
B. the same functions scale the Jacobian with `orig_jac *= scale`: a vector scale (one factor per constraint) multiplies the COLUMNS
   (design variables) instead of the rows (constraints): silently wrong when #constraints == #variables, ValueError otherwise.
C. LinearCompositeFunction._restricted_jac returns A' J_f(Ax) instead of J_f(Ax) A for a vector-valued f.
D. compute_quadratic_approximation with a non-symmetric Hessian approximation is not the documented polynomial (and its gradient at the
   expansion point is not the gradient of f).
E. (discipline, not in the harness) ConstraintAggregation(..., "MAX").linearize raises TypeError.
"""
import numpy as np
from numpy import array

from gemseo.algos.aggregation import core as agg
from gemseo.algos.aggregation.aggregation_func import aggregate_max, aggregate_upper_bound_ks
from gemseo.core.mdo_functions.linear_composite_function import LinearCompositeFunction
from gemseo.core.mdo_functions.mdo_function import MDOFunction
from gemseo.core.mdo_functions.taylor_polynomials import compute_quadratic_approximation

print("A. in-place scaling of the caller's arrays (scale=3, indices=None)")
v, J = array([1.0, 2.0]), array([[1.0, 0.0], [0.0, 1.0]])
print("   compute_upper_bound_ks_agg ->", agg.compute_upper_bound_ks_agg(v, scale=3.0), "; caller's values are now", v, "(expected [1. 2.])")
v = array([1.0, 2.0])
agg.compute_total_ks_agg_jac(v, J, scale=3.0)
print("   compute_total_ks_agg_jac: caller's values", v, "caller's Jacobian", J.tolist(), "(expected [1. 2.] and the identity)")
v = array([1.0, 2.0])
print("   compute_max_agg twice on the same array:", agg.compute_max_agg(v, scale=3.0), agg.compute_max_agg(v, scale=3.0), "(expected [6.] [6.])")
stored = {"v": array([1.0, 2.0]), "J": array([[1.0, 0.0], [0.0, 1.0]])}  # a constraint returning stored arrays (database, adapter, ...)
g = MDOFunction(lambda x: stored["v"], "g", f_type="ineq", jac=lambda x: stored["J"], dim=2)
ks = aggregate_upper_bound_ks(g, rho=2.0, scale=3.0)
x = array([0.0, 0.0])
print("   aggregate_upper_bound_ks(g, scale=3) evaluated twice:", ks.evaluate(x), ks.evaluate(x), "; g.evaluate(x) now returns", g.evaluate(x))

print("B. vector scale: Jacobian of the aggregation of (s_i g_i) must use the rows s_i J_i")
for m, n in [(2, 2), (2, 3)]:
    v = np.arange(1.0, m + 1)
    J = np.arange(1.0, m * n + 1).reshape(m, n)
    s = array([2.0, 5.0])
    for name, kw in [("compute_total_ks_agg_jac", dict(rho=1.0)), ("compute_total_iks_agg_jac", dict(rho=1.0)), ("compute_max_agg_jac", {})]:
        ref = getattr(agg, name)(v * s, s[:, None] * J, **kw)  # the function s*g with Jacobian diag(s) J, scale 1
        try:
            print(f"   {name} m={m} n={n}: got {getattr(agg, name)(v.copy(), J.copy(), scale=s.copy(), **kw)}, expected {ref}")
        except Exception as e:
            print(f"   {name} m={m} n={n}: {type(e).__name__}: {e}; expected {ref}")
gm = aggregate_max(MDOFunction(lambda x: array([x[0] + x[1], 2 * x[1]]), "g", f_type="ineq", jac=lambda x: array([[1.0, 1.0], [0.0, 2.0]]), dim=2),
                   scale=array([10.0, 1.0]))
print("   aggregate_max(g=(x0 + x1, 2 x1), scale=(10, 1)) at x=(1, 1): value", gm.evaluate(array([1.0, 1.0])), "jac", gm.jac(array([1.0, 1.0])),
      "(expected [20.] and [10. 10.])")

print("C. LinearCompositeFunction f(Ax) with f(y) = B y: the Jacobian must be B A")
for k, m, n in [(2, 2, 2), (2, 2, 3), (3, 2, 2)]:
    B = np.arange(1.0, m * k + 1).reshape(m, k)
    A = np.arange(2.0, k * n + 2).reshape(k, n)
    c = LinearCompositeFunction(MDOFunction(lambda y, B=B: B @ y, "f", jac=lambda y, B=B: B, dim=m), A)
    try:
        print(f"   f: R^{k} -> R^{m}, A {k}x{n}: jac {np.asarray(c.jac(np.ones(n))).tolist()}, expected {(B @ A).tolist()}")
    except Exception as e:
        print(f"   f: R^{k} -> R^{m}, A {k}x{n}: {type(e).__name__}: {e}; expected {(B @ A).tolist()}")

print("D. compute_quadratic_approximation with a non-symmetric Hessian approximation")
f = MDOFunction(lambda x: 0.0, "f", jac=lambda x: array([0.0, 0.0]), dim=1)
H = array([[0.0, 1.0], [0.0, 0.0]])
x0 = array([0.0, 1.0])
q = compute_quadratic_approximation(f, x0, H)
xx = array([1.0, 0.0])
d = xx - x0
print("   f = 0, H = [[0,1],[0,0]], x0 = (0,1): q(1,0) =", q.evaluate(xx), "documented f(x0) + g'd + 1/2 d'Hd =", 0.5 * d @ H @ d,
      "; grad q(x0) =", q.jac(x0), "expected grad f(x0) = [0. 0.]")

print("E. ConstraintAggregation('MAX').linearize")
from gemseo.disciplines.constraint_aggregation import ConstraintAggregation

d = ConstraintAggregation(["g"], "MAX")
d.execute({"g": array([1.0, 2.0])})
try:
    print("  ", d.linearize({"g": array([1.0, 2.0])}, compute_all_jacobians=True))
except Exception as e:
    print(f"   {type(e).__name__}: {e}")
