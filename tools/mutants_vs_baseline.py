#!/usr/bin/env python3
"""Mutation testing for a property whose check already fails on the unchanged tree (genuine, not yet recorded defects).

tools/mutants.py counts a mutant as CAUGHT when the check exits 1; that is vacuous when the baseline exits 1 as well.  This
variant collects the reproduced violations per (harness, configuration, label) on /repo HEAD and on every mutant and reports a mutant
as CAUGHT only if it produces reproduced violations that the baseline does not have (and no harness error).

usage: tools/mutants_vs_baseline.py C10 [patch-name-regex] [--tier quick]
       tools/mutants_vs_baseline.py --collect C10 quick OUT.json      (internal: run under VERIF_REPO=<tree>)
"""
import glob
import json
import os
import re
import shutil
import subprocess
import sys
import tempfile

VERIF = "/verif"


def collect(prop, tier, out):
    sys.path.insert(0, VERIF)
    import logging
    from concurrent.futures import ProcessPoolExecutor
    from multiprocessing import get_context

    import symgem.run as R

    logging.disable(logging.CRITICAL)
    mod = R._load(prop)
    n = len(mod.configs(tier))
    with ProcessPoolExecutor(max_workers=min(16, os.cpu_count() or 1), mp_context=get_context("spawn")) as pool:
        results = list(pool.map(R.run_one, [(prop, i, tier, 0, None) for i in range(n)], chunksize=4))
    keys, bad = [], []
    for r in results:
        cfg = json.dumps(r["cfg"], sort_keys=True)
        if r.get("error"):
            bad.append([r["harness"], cfg, "error: " + r["error"][:200]])
        for m in r["selftest"]["mismatch"]:
            bad.append([r["harness"], cfg, "selftest: " + json.dumps(m, default=str)[:200]])
        for w in r["inconclusive"]:
            bad.append([r["harness"], cfg, "inconclusive: " + w[:200]])
        for v in r["violations"]:
            (keys if v["reproduced"] else bad).append([r["harness"], cfg, v["label"] + ("" if v["reproduced"] else " (NOT REPRODUCED)")])
    json.dump(dict(violations=keys, problems=bad), open(out, "w"))


def run_tree(prop, tier, tree):
    out = tempfile.mktemp(suffix=".json", dir="/tmp")
    env = dict(os.environ, VERIF_REPO=tree, PYTHONWARNINGS="ignore", PYTHONDONTWRITEBYTECODE="1", PYTHONHASHSEED="0", OMP_NUM_THREADS="1",
               OPENBLAS_NUM_THREADS="1", MKL_NUM_THREADS="1")
    r = subprocess.run([f"{VERIF}/.venv/bin/python", __file__, "--collect", prop, tier, out], env=env, cwd=VERIF, capture_output=True, text=True)
    if r.returncode or not os.path.exists(out):
        raise RuntimeError(r.stderr[-2000:])
    d = json.load(open(out))
    os.unlink(out)
    return {tuple(k) for k in d["violations"]}, {tuple(k) for k in d["problems"]}


def main():
    if sys.argv[1] == "--collect":
        return collect(sys.argv[2], sys.argv[3], sys.argv[4])
    prop = sys.argv[1]
    rx = sys.argv[2] if len(sys.argv) > 2 and not sys.argv[2].startswith("--") else ""
    tier = sys.argv[sys.argv.index("--tier") + 1] if "--tier" in sys.argv else "quick"
    base_v, base_p = run_tree(prop, tier, "/repo")
    print(f"baseline (/repo HEAD): {len(base_v)} reproduced violation keys, {len(base_p)} problems")
    for p in sorted(base_p)[:10]:
        print("   baseline problem:", p)
    ok = True
    for patch in sorted(p for p in glob.glob(f"{VERIF}/mutants/{prop}-*.patch") if re.search(rx, p)):
        wt = tempfile.mkdtemp(prefix="wt_mutb_", dir="/tmp")
        os.rmdir(wt)
        try:
            subprocess.run(["git", "-C", "/repo", "worktree", "add", "-q", "--detach", wt, "HEAD"], check=True)
            a = subprocess.run(["git", "-C", wt, "apply", patch], capture_output=True, text=True)
            if a.returncode:
                print(f"{'PATCH-DOES-NOT-APPLY':22s} {os.path.basename(patch)} {a.stderr.strip()[:200]}")
                ok = False
                continue
            v, pr = run_tree(prop, tier, wt)
            new = sorted(v - base_v)
            newp = sorted(pr - base_p)
            verdict = "CAUGHT" if new else "MISSED"
            if not new:
                ok = False
            labels = sorted({(h, re.sub(r"\[[0-9, ]+\]", "[..]", lab)) for h, c, lab in new})
            print(f"{verdict:8s} {os.path.basename(patch)}: {len(new)} new violation keys in {len({(h, c) for h, c, l in new})} configurations; "
                  f"labels {labels[:6]}; e.g. {new[0] if new else None}" + (f"; new problems {newp[:3]}" if newp else ""))
        finally:
            subprocess.run(["git", "-C", "/repo", "worktree", "remove", "--force", wt], capture_output=True)
            shutil.rmtree(wt, ignore_errors=True)
    sys.exit(0 if ok else 1)


if __name__ == "__main__":
    main()
