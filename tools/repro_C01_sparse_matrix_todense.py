"""C01 defect (outside the symbolic stub's model, found by a concrete probe): with the default support_sparse_jacobian=False a Jacobian
returned as a scipy.sparse MATRIX (csr_matrix / csc_matrix) is densified with ``todense()``, i.e. into a ``numpy.matrix``; the gradient
normalization then executes ``out[..., norm_inds] *= factors`` on it, and ``*`` of numpy.matrix is a MATRIX product: ValueError as soon as
two components are normalized (a sparse ARRAY, csr_array, densifies to an ndarray and works).

Run: PYTHONPATH=/repo/src /venv/bin/python /verif/tools/repro_C01_sparse_matrix_todense.py      (exit 1 = defect present)
"""
import sys

import numpy as np
from scipy.sparse import csr_array, csr_matrix

from gemseo.algos.design_space import DesignSpace
from gemseo.algos.optimization_problem import OptimizationProblem
from gemseo.core.mdo_functions.mdo_function import MDOFunction

bad = 0
for fmt in (csr_array, csr_matrix):
    space = DesignSpace()
    space.add_variable("x", 2, lower_bound=0.0, upper_bound=2.0)
    problem = OptimizationProblem(space)
    problem.objective = MDOFunction(lambda x: np.array([x[0], 2 * x[1]]), "f", jac=lambda x: fmt(np.array([[1.0, 0.0], [0.0, 2.0]])))
    problem.preprocess_functions(is_function_input_normalized=True)  # support_sparse_jacobian=False is the default
    try:
        jac = problem.objective.jac(np.array([0.5, 0.5]))
        ok = np.allclose(np.asarray(jac), [[2.0, 0.0], [0.0, 4.0]])
        bad += not ok
        print(fmt.__name__, "->", type(jac).__name__, np.asarray(jac).tolist(), "ok" if ok else "WRONG")
    except ValueError as error:
        bad += 1
        print(fmt.__name__, "-> ValueError:", error)
sys.exit(1 if bad else 0)
