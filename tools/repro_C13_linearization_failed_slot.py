"""C13: DiscParallelLinearization.execute drops the slots of failed tasks instead of returning None there, so the Jacobians
that follow a failed task are no longer positionally matched to the inputs (the return annotation is
``list[JacobianData | None]``; DiscParallelExecution / CallableParallelExecution return ``None`` in the failed slot).

Run: PYTHONPATH=/repo/src /venv/bin/python /verif/tools/repro_C13_linearization_failed_slot.py
"""
import logging

from numpy import array

from gemseo.core.discipline import Discipline
from gemseo.core.parallel_execution.disc_parallel_execution import DiscParallelExecution
from gemseo.core.parallel_execution.disc_parallel_linearization import DiscParallelLinearization

logging.disable(logging.CRITICAL)


class Lin(Discipline):
    def __init__(self, name, coeff, fail=False):
        super().__init__(name=name)
        self.io.input_grammar.update_from_names(["x"])
        self.io.output_grammar.update_from_names(["y"])
        self.io.input_grammar.defaults = {"x": array([0.0])}
        self.coeff, self.fail = coeff, fail

    def _run(self, input_data):
        if self.fail:
            raise ValueError(f"{self.name} fails")
        return {"y": self.coeff * input_data["x"]}

    def _compute_jacobian(self, input_names=(), output_names=()):
        self.jac = {"y": {"x": array([[self.coeff]])}}


def build():
    discs = [Lin("d0", 10.0), Lin("d1", 20.0, fail=True), Lin("d2", 30.0)]
    for d in discs:
        d.add_differentiated_inputs(["x"])
        d.add_differentiated_outputs(["y"])
    return discs


inputs = [{"x": array([1.0])}, {"x": array([2.0])}, {"x": array([3.0])}]
import contextlib, io  # the worker loop prints the traceback of the failing task
with contextlib.redirect_stderr(io.StringIO()):
    out_exec = DiscParallelExecution(build(), n_processes=2, use_threading=True).execute(inputs)
    out_lin = DiscParallelLinearization(build(), n_processes=2, use_threading=True).execute(inputs)
print("execute  :", [None if o is None else float(o["y"][0]) for o in out_exec])
print("linearize:", [None if j is None else float(j["y"]["x"][0, 0]) for j in out_lin])
assert [o is None for o in out_exec] == [False, True, False]
ok = len(out_lin) == 3 and out_lin[1] is None and out_lin[2] is not None and float(out_lin[2]["y"]["x"][0, 0]) == 30.0
print("positionally matched:", ok)
raise SystemExit(0 if ok else 1)
