#!/usr/bin/env python3
"""Regenerate /verif/MANIFEST.json from the table below (kept in one place so that it stays valid)."""
import json, pathlib
V = pathlib.Path(__file__).resolve().parent.parent
TECH = "bounded symbolic execution of the real Python code on z3 terms carried in NumPy object arrays (SYMNP); each obligation is an SMT validity query per feasible path; counterexamples replayed in float64"
CLAIMED = {
 "C10": dict(text="For all operand functions (uninterpreted symbols), points and constants within the stated dimensions, value and Jacobian of composed functions equal the textbook combination; bounded by operand dims <= 3 and expression depth <= 2.", ref="DESIGN.md 3/C10",
             note="float64 modelled as exact reals; NumPy primitive model of symgem/core.py (self-tested differentially each run); sparse Jacobians and string expressions outside."),
 "C01": dict(text="For all bounds (symbolic l<u / l==u / infinite), all user functions and Jacobians (uninterpreted symbols), all request points and all value/Jacobian interleavings within the bound (n<=2-3, m<=2, histories of 2-3 requests), returned values/Jacobians, database keys/values and memoization are as stated, for every preprocessing configuration.", ref="DESIGN.md 3/C01",
             note="float64 as exact reals; hash stub (all symbolic keys collide, lookups decided by the real __eq__); bounds injected into Variable.__dict__ assuming lb<=ub; integer variables with concrete bounds; sparse Jacobians, complex step and NaN outside."),
 "C14": dict(text="PARTIAL (library-independent pipeline only): for every unit-sample matrix in [0,1]^{S x d} (symbolic, S<=2-3, d<=3) and all symbolic float bounds / listed integer bounds, the real compute_doe/_pre_run pipeline returns S samples inside the bounds, integral on integer variables, equal to the (rounded) design-space image of the unit samples in variable order, and restores the integer-normalization switch. The sampling algorithms themselves (SciPy/OpenTURNS/pyDOE, seeds, counts) are NOT covered: a change confined to them is not detected.", ref="DESIGN.md 3/C14",
             note="unit sampler replaced by a contract stub (arbitrary matrix in the unit cube); float64 as reals; bounds injected into Variable.__dict__; tie-breaking rule of the rounding left unspecified (nearest integer)."),
 "C06": dict(text="PARTIAL (Jacobi / Gauss-Seidel / MDAChain over them, linear systems with concrete rational contraction matrices, <=2-3 sweeps): for all inputs, initial couplings and tolerances, (i) an MDA started at an exact solution returns it and reports a zero residual, for every relaxation factor, scaling and listing order tried; (ii) whenever the MDA claims convergence (stops before max_mda_iter or reports residual<=tol) the returned couplings satisfy every discipline within ||A||*tol. Convergence beyond the sweep bound, Newton-type MDAs, accelerations and non-linear systems are NOT covered: a change confined to them is not detected.", ref="DESIGN.md 3/C06",
             note="float() of base_mda_solver stubbed to identity; tolerance written into settings.__dict__ (pydantic needs a concrete number); sqrt/norm through auxiliary variables s>=0, s^2=t; float64 as reals."),
 "C08": dict(text="For ALL dependency graphs on n<=3 disciplines with self-loops (and all loop-free graphs on 4; thorough: all 65536 graphs on 4), duplicated names and extra shared inputs: the real execution sequence is a valid schedule (each discipline once, groups = mutually reachable sets, producers strictly earlier), strong/weak coupling sets as documented, MDAChain wraps every cyclic group in an MDA in producer-before-consumer order; for all acyclic graphs and listing orders, MDOChain/MDAChain outputs equal the term obtained by substituting producers into consumers (uninterpreted disciplines, all inputs).", ref="DESIGN.md 3/C08",
             note="in the graph/mdachain harnesses each path is concrete once the edge flags are chosen: the solver contributes exhaustive pruned enumeration and counterexamples, not intra-path reasoning; one coupling output per discipline, sizes 1; order of members inside a group not asserted."),
 "C02": dict(text="(a) numeric: for all symbolic bounds (l<u, l==u, infinite, one-sided), integer variables with concrete bounds, all vectors and 2xn batches (n<=3): normalize/unnormalize/gradient scalings/transform are the stated affine maps and mutually inverse, membership raises exactly outside [l-tol,u+tol] or on non-integral integers, projection is the clip; (b) histories: every sequence of <=2-3 (thorough 3-4) public edit operations and cache-filling queries on small spaces keeps all views (names, sizes, indices, bounds, current value, normalization of a symbolic vector) equal to an independent reference model.", ref="DESIGN.md 3/C02",
             note="bounds injected into Variable.__dict__ (numeric part); history part uses concrete dyadic bounds through the public API, each path is concrete apart from the symbolic probe vector; out= buffers, out-of-bounds normalization on l==u components and position of a renamed variable not asserted."),
 "C09": dict(text="For 25 composition templates (chains, diamonds, fan-in/out, pass-through and overwritten variables, parallel, additive, nested, MDAChain with chain_linearize on acyclic systems; <=4 leaf disciplines, sizes 1-2) with fully uninterpreted disciplines and partials: for all input points and all requested input/output subsets (solver-chosen) and a second request on the same object, every returned block equals the forward-accumulated chain-rule term, zero blocks have the right shape, earlier blocks are unchanged by a later request and equal those of a fresh process. Two recorded defects of MDOChain on read-write/overwritten variables are reported as KNOWN-FINDING.", ref="DESIGN.md 3/C09",
             note="discipline.csr_array stubbed to dense object zeros; MDOParallelChain with n_processes=1; sparse/operator partials, MDAChain through JacobianAssembly (scipy.sparse) outside."),
}
NA = {
 "C07": "JacobianAssembly/CoupledSystem go through scipy.sparse, SuperLU and Krylov solvers: no symbolic value survives csr_matrix(); encoding would verify a model of scipy, not the code (DESIGN.md C07).",
 "C11": "the subject is the byte-level round trip through h5py/libhdf5 and text parsing; symbolic values are realised at that boundary, leaving only enumeration of concrete histories (DESIGN.md C11).",
 "C12": "needs real process death and a real HDF5 file observed afterwards; neither can be executed symbolically (DESIGN.md C12).",
 "C13": "real threads/processes, queues and OS scheduling cannot run inside the symbolic executor; a scheduler stub would replace the code under test (DESIGN.md C13).",
 "C19": "CDF/quantile/moment code is compiled SciPy/OpenTURNS special functions; nothing a solver can see between wrapper and answer (DESIGN.md C19).",
 "C20": "pickle is a C serializer and the quantifier ranges over classes/moments of life, i.e. concrete objects; symbolic inputs add nothing (DESIGN.md C20).",
}
PENDING = "check not built yet in this round (planned, see DESIGN.md section 3); not claimed until its harness is committed"
ALL = [f"C{i:02d}" for i in range(1, 21)]
checks = []
for pid, c in CLAIMED.items():
    checks.append(dict(property_id=pid, quick_cmd=f"./check {pid} --tier quick", thorough_cmd=f"./check {pid} --tier thorough",
                       evidence_file=f"/verif/evidence/{pid}.json", replay_cmd_template=f"./check {pid} --replay {{path}}", engine="symgem",
                       level_claimed=dict(category="model_checking", text=c["text"], design_ref=c["ref"]), level_note=c["note"], technique=c.get("technique", TECH)))
na = [dict(property_id=p, reason=NA.get(p, PENDING)) for p in ALL if p not in CLAIMED]
m = dict(version=1, setup_cmd="sh /verif/setup.sh",
         hooks=dict(guard="GEMSEO_VERIF", enable="no source hooks: environment stubs are installed by setattr on the imported modules inside the checking process", 
                    baseline_off_cmd="cd /repo && /venv/bin/python -m pytest -ra -q -p no:cacheprovider --timeout=900 --continue-on-collection-errors", source_commits=[], add_only=True),
         engines=[dict(name="symgem", path="/verif/symgem", serves_properties=sorted(CLAIMED), kind_free_text="SYMNP: symbolic execution of real gemseo code by operator overloading on z3 terms inside NumPy object arrays, DFS path exploration with re-execution, concrete float64 replay; CrossHair for small int/str kernels")],
         checks=checks, not_applicable=na,
         notes="Exit codes of ./check: 0 held, 1 VIOLATION (reproduced), 2 inconclusive, 3 harness error. Known findings: /verif/known_findings.json.")
(V / "MANIFEST.json").write_text(json.dumps(m, indent=1))
print("claimed:", sorted(CLAIMED), "na:", [x["property_id"] for x in na])
