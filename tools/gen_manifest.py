#!/usr/bin/env python3
"""Regenerate /verif/MANIFEST.json from tools/claims.json (kept in one place so that it stays valid)."""
import json, pathlib
V = pathlib.Path(__file__).resolve().parent.parent
C = json.loads((V / "tools" / "claims.json").read_text())
CLAIMED, NA, TECH = C["claimed"], C["not_applicable"], C["technique"]
PENDING = "check not built yet in this round (planned, see DESIGN.md section 3); not claimed until its harness is committed"
ALL = [f"C{i:02d}" for i in range(1, 21)]
checks = []
for pid, c in CLAIMED.items():
    checks.append(dict(property_id=pid, quick_cmd=f"./check {pid} --tier quick", thorough_cmd=f"./check {pid} --tier thorough",
                       evidence_file=f"/verif/evidence/{pid}.json", replay_cmd_template=f"./check {pid} --replay {{path}}", engine="symgem",
                       level_claimed=dict(category="model_checking", text=c["text"], design_ref=c["ref"]), level_note=c["note"], technique=c.get("technique", TECH)))
na = [dict(property_id=p, reason=NA.get(p, PENDING)) for p in ALL if p not in CLAIMED]
m = dict(version=1, setup_cmd="sh /verif/setup.sh",
         hooks=dict(guard="GEMSEO_VERIF", enable="no source hooks: environment stubs are installed by setattr on the imported modules inside the checking process", 
                    baseline_off_cmd="cd /repo && /venv/bin/python -m pytest -ra -q -p no:cacheprovider --timeout=900 --continue-on-collection-errors", source_commits=[], add_only=True),
         engines=[dict(name="symgem", path="/verif/symgem", serves_properties=sorted(CLAIMED), kind_free_text="SYMNP: symbolic execution of real gemseo code by operator overloading on z3 terms inside NumPy object arrays, DFS path exploration with re-execution, concrete float64 replay; CrossHair for small int/str kernels")],
         checks=checks, not_applicable=na,
         notes="Exit codes of ./check: 0 held, 1 VIOLATION (reproduced), 2 inconclusive, 3 harness error. Known findings: /verif/known_findings.json.")
(V / "MANIFEST.json").write_text(json.dumps(m, indent=1))
print("claimed:", sorted(CLAIMED), "na:", [x["property_id"] for x in na])
