"""C06: the Aitken acceleration divides 0 by 0 when two successive residuals it is given are equal (and non-zero): NaN couplings.

``Aitken._compute_transformed_iterate`` (src/gemseo/algos/sequence_transformer/acceleration/aitken.py) returns
``gxn - (d2xn.T @ dxn) / (d2xn.T @ d2xn) * dxn`` without any guard on ``d2xn == 0`` (``Secant`` and ``AlternateDeltaSquared`` have the same
unguarded quotient; ``Alternate2Delta`` guards the degenerate case with the rank returned by ``lstsq``).  Composed with an over-relaxation
(gemseo feeds the RELAXED iterates to the acceleration) the residuals seen by Aitken can repeat although the fixed-point iteration is a
contraction and far from converged.  Found by /verif ``C06/accel`` (thorough tier): scalar self-coupled discipline y = y/8 + x,
MDAJacobi(acceleration_method="Aitken", over_relaxation_factor=0.5), x = -1/4, start y = 17, tolerance 129/128 (no scaling).

Run: PYTHONPATH=/repo/src /venv/bin/python /verif/tools/repro_C06_aitken_zero_denominator.py
"""
import logging
import warnings

from numpy import array, isfinite

from gemseo.disciplines.analytic import AnalyticDiscipline
from gemseo.mda.jacobi import MDAJacobi

logging.disable(logging.CRITICAL)
warnings.simplefilter("ignore")

disc = AnalyticDiscipline({"y": "y/8 + x"}, name="d")
mda = MDAJacobi([disc], n_processes=1, acceleration_method="Aitken", over_relaxation_factor=0.5, tolerance=129 / 128, max_mda_iter=4)
mda.scaling = "no_scaling"
out = mda.execute({"x": array([-0.25]), "y": array([17.0])})
print("returned y =", out["y"], " residual history =", mda.residual_history, " exact solution y* =", -0.25 / (1 - 1 / 8))
bad = not isfinite(out["y"]).all()
print("DEFECT REPRODUCED (NaN couplings)" if bad else "exact 0/0 not reproduced")

# The same composition with generic (non-dyadic) values: the denominator is rounding noise instead of an exact zero, the third accelerated
# iterate is thrown ~1e13 away and the MDA never recovers (for every start tried; with relaxation factor 1 the same MDA converges in 3 sweeps).
# For the scalar affine map G(y) = a y + b the residuals handed to Aitken at its third call differ by a e0 (a - 1)(1 - 2 w): identically 0
# for the relaxation factor w = 1/2.
for w in (0.5, 1.0):
    disc = AnalyticDiscipline({"y": "y/8 + x"}, name="d")
    mda = MDAJacobi([disc], n_processes=1, acceleration_method="Aitken", over_relaxation_factor=w, tolerance=1e-10, max_mda_iter=30)
    out = mda.execute({"x": array([1.3]), "y": array([7.1])})
    gap = abs(out["y"][0] / 8 + 1.3 - out["y"][0])
    print(f"relaxation {w}: {len(mda.residual_history)} sweeps, returned y = {out['y'][0]:.6g} (exact 1.48571), |G(y) - y| = {gap:.3g}")
    if w != 1.0 and not gap < 1e-6:
        bad = True
print("DEFECT REPRODUCED" if bad else "not reproduced")
raise SystemExit(1 if bad else 0)
