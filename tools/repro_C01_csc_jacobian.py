"""C01 defect: a user Jacobian returned in CSC storage is normalized along the wrong axis.

DesignSpace.normalize_vect / unnormalize_vect (hence normalize_grad / unnormalize_grad) scale the stored coefficients of a sparse
Jacobian with ``out.indices`` taken as COLUMN indices; that is true for the CSR storage only (for CSC ``indices`` are ROW indices).

Run: PYTHONPATH=/repo/src /venv/bin/python /verif/tools/repro_C01_csc_jacobian.py      (exit 1 = defect present)
"""
import sys

import numpy as np
from scipy.sparse import csc_array, csc_matrix, csr_array

from gemseo.algos.design_space import DesignSpace
from gemseo.algos.optimization_problem import OptimizationProblem
from gemseo.core.mdo_functions.mdo_function import MDOFunction


def run(fmt):
    space = DesignSpace()
    space.add_variable("a", lower_bound=0.0, upper_bound=2.0)
    space.add_variable("b")
    space.add_variable("c", lower_bound=1.0, upper_bound=5.0)
    problem = OptimizationProblem(space)
    problem.objective = MDOFunction(
        lambda x: np.array([x[0] ** 2, 3 * x[1] + 4 * x[2]]), "f",
        jac=lambda x: fmt(np.array([[2 * x[0], 0.0, 0.0], [0.0, 3.0, 4.0]])))
    problem.preprocess_functions(is_function_input_normalized=True, support_sparse_jacobian=True)
    x_norm = np.array([0.5, 1.0, 0.25])          # physical point [1, 1, 2]
    jac = problem.objective.jac(x_norm).toarray()
    recorded = problem.database.get_function_value("@f", np.array([1.0, 1.0, 2.0])).toarray()
    return jac, recorded


expected = np.array([[2 * 1.0 * 2.0, 0.0, 0.0], [0.0, 3.0, 4.0 * 4.0]])  # dF(x_phys) . diag(u - l), 1 on the unbounded component
physical = np.array([[2.0, 0.0, 0.0], [0.0, 3.0, 4.0]])
bad = 0
for fmt in (csr_array, csc_array, csc_matrix):
    jac, recorded = run(fmt)
    ok = np.allclose(jac, expected) and np.allclose(recorded, physical)
    bad += not ok
    print(f"{fmt.__name__:10s} returned {jac.tolist()} recorded {recorded.tolist()} -> {'ok' if ok else 'WRONG'}")
print("expected returned", expected.tolist(), "recorded", physical.tolist())

# the same through the design space alone
space = DesignSpace()
space.add_variable("a", lower_bound=0.0, upper_bound=2.0)
space.add_variable("b")
space.add_variable("c", lower_bound=1.0, upper_bound=5.0)
g = np.array([[2.0, 0.0, 0.0], [0.0, 3.0, 4.0]])
print("normalize_grad dense:", space.normalize_grad(g).tolist())
print("normalize_grad csr  :", space.normalize_grad(csr_array(g)).toarray().tolist())
print("normalize_grad csc  :", space.normalize_grad(csc_array(g)).toarray().tolist())
bad += not np.allclose(space.normalize_grad(csc_array(g)).toarray(), space.normalize_grad(g))
sys.exit(1 if bad else 0)
