"""C10: ConvexLinearApprox.jac wrote into the Jacobian array returned by its operand; for an MDOLinearFunction that array is the
function's own coefficients, which were corrupted.  Exit 1 = defect present."""
import sys
from numpy import array
from gemseo.core.mdo_functions.convex_linear_approx import ConvexLinearApprox
from gemseo.core.mdo_functions.mdo_linear_function import MDOLinearFunction

lin = MDOLinearFunction(array([[1.0, -2.0, 3.0], [0.5, 1.0, -1.0]]), "lin", value_at_zero=array([1.0, 2.0]))
before = lin.coefficients.copy()
c = ConvexLinearApprox(array([1.0, 2.0, 3.0]), lin)
c.jac(array([1.5, 2.5, 2.0]))
print("coefficients of the operand after differentiating its approximation:\n", lin.coefficients)
sys.exit(0 if (lin.coefficients == before).all() else 1)
