"""Differential check of /verif/harness/h5fake.py against the real h5py on the operations gemseo performs.

usage: /verif/.venv/bin/python tools/h5fake_selfcheck.py      (prints every difference, exit 1 if any)
Each step is evaluated on both libraries; results are compared by type name, dtype, shape and value (exceptions by type name).
"""
import os, shutil, sys, tempfile
sys.path.insert(0, "/verif")
import h5py
import numpy as np
from harness.h5fake import FakeH5


def norm(r):
    if isinstance(r, BaseException):
        return ("EXC", type(r).__name__)
    if isinstance(r, np.ndarray):
        return ("ndarray", str(r.dtype) if r.dtype.kind != "O" else "O", r.shape, r.tolist())
    if isinstance(r, np.generic):
        return ("npscalar", type(r).__name__, r.item())
    if isinstance(r, (list, tuple)):
        return (type(r).__name__, [norm(x) for x in r])
    if isinstance(r, (int, float, str, bytes, bool, type(None))):
        return (type(r).__name__, r)
    if isinstance(r, np.dtype):
        return ("dtype", str(r))
    return ("obj", type(r).__name__)


def scenario(h5, p):
    out = []

    def step(label, f):
        try:
            r = f()
        except Exception as e:  # noqa: BLE001
            r = e
        out.append((label, norm(r)))

    step("open r missing", lambda: h5.File(p, "r"))
    step("open default missing", lambda: h5.File(p))
    step("is_hdf5 missing", lambda: h5.is_hdf5(p))
    with h5.File(p, "a") as f:
        g = f.require_group("a/b")
        step("names", lambda: (g.name, g.parent.name, f.name, g.parent.parent.name, f.mode))
        x = f.require_group("x")
        step("len empty group", lambda: len(x))
        ds = x.create_dataset("0", data=np.array([1., 2.]))
        step("array(ds)", lambda: np.array(ds))
        step("ds meta", lambda: (ds.shape, ds.dtype, len(ds), ds.size, ds.ndim, ds.name))
        step("dup create", lambda: x.create_dataset("0", data=np.array([1., 2.])))
        step("missing key", lambda: x["7"])
        step("missing nested", lambda: f["q/r"])
        step("get missing", lambda: x.get("7"))
        step("in", lambda: ("0" in x, "a/b" in f, "x/0" in f, "x/1" in f, "/x/0" in g, "zz/0" in f))
        step("abs path from subgroup", lambda: np.array(g["/x/0"]))
        k = f.require_group("k")
        keys = np.array(["f", "gg"], dtype=np.bytes_)
        kd = k.create_dataset("0", data=keys, maxshape=(None,), dtype=h5.string_dtype())
        step("list(kd)", lambda: list(kd))
        step("kd[()]", lambda: kd[()])
        step("kd meta", lambda: (len(kd), kd.shape, kd.dtype.kind, kd.maxshape))
        kd.resize((3,))
        step("kd after resize", lambda: list(kd))
        kd[2:] = np.array(["h"], dtype=np.bytes_)
        step("list(kd) after", lambda: [o.decode() for o in kd])
        step("asstr", lambda: (kd.asstr()[()], kd.asstr()[0], list(kd.asstr())))
        step("asstr on floats", lambda: ds.asstr()[()])
        step("resize (no maxshape)", lambda: ds.resize((5,)))
        ke = k.create_dataset("1", data=np.array([], dtype=np.bytes_), maxshape=(None,), dtype=h5.string_dtype())
        step("empty keys", lambda: (ke.shape, list(ke)))
        ke.resize((1,)); ke[0:] = np.array(["z"], dtype=np.bytes_)
        step("empty keys after", lambda: list(ke))
        v = f.require_group("v")
        vd = v.create_dataset("0", data=np.array([1.5, 2.5]), maxshape=(None,), dtype=np.float64)
        step("iter vd", lambda: list(vd))
        vd.resize((4,))
        step("vd resized", lambda: vd[()])
        vd[2:] = np.array([7., 8.])
        step("vd after", lambda: vd[()])
        step("vd[...]", lambda: vd[...])
        step("vd[1]", lambda: vd[1])
        step("vd[1:3]", lambda: vd[1:3])
        step("assign wrong size", lambda: vd.__setitem__(slice(1, None), np.array([1., 2.])))
        step("resize beyond", lambda: v.create_dataset("lim", data=np.array([1.]), maxshape=(2,)).resize((3,)))
        step("shrink", lambda: (vd.resize((1,)), vd[()])[1])
        sg = v.require_group("arr_0")
        sg.create_dataset("1", data=np.array([[1., 2.], [3., 4.]]), dtype=np.float64)
        sg.create_dataset("10", data=np.array([1.]), dtype=np.float64)
        sg.create_dataset("2", data=np.array([1, 2]), dtype=np.float64)
        sg.create_dataset("3", data=[1.0, 2], dtype=np.float64)
        step("items order", lambda: [(k_, np.array(v_)) for k_, v_ in sg.items()])
        step("iter group", lambda: (list(v), len(v), list(v.keys()), [type(o).__name__ for o in v.values()]))
        sc = f.create_dataset("size", data=3)
        step("scalar ds", lambda: (sc[()], sc.shape, sc[...]))
        step("scalar len", lambda: len(sc))
        step("scalar iter", lambda: list(sc))
        step("scalar float", lambda: f.create_dataset("sf", data=2.5)[()])
        step("scalar np.float64", lambda: f.create_dataset("sf2", data=np.float64(2.5))[()])
        step("scalar bool", lambda: f.create_dataset("sb", data=True)[()])
        step("scalar str", lambda: f.create_dataset("ss", data="abc")[()])
        step("scalar bytes", lambda: f.create_dataset("sby", data=b"abc")[()])
        nm = f.create_dataset("names", data=np.array(["x", "yy"], dtype=np.bytes_))
        step("names", lambda: (list(nm), np.array(nm), [n.decode() for n in nm]))
        step("U array", lambda: f.create_dataset("uarr", data=np.array(["x", "yy"])))
        step("int bound", lambda: np.array(f.create_dataset("lbi", data=np.array([1, 2]))))
        step("inf bound", lambda: np.array(f.create_dataset("lbinf", data=np.array([-np.inf, 2]))))
        data_array = np.array(["float"] * 2, dtype="bytes")
        vt = f.create_dataset("vt", data=data_array, dtype=data_array.dtype)
        step("vt", lambda: np.array(vt)[0])
        step("S array [()]", lambda: f.create_dataset("s1", data=np.array(["abc"], dtype="bytes"))[()])
        step("S 2d [()]", lambda: f.create_dataset("s2", data=np.array([["abc", "d"]], dtype="bytes"))[()])
        step("vlen list", lambda: f.create_dataset("vl", data=[b"abc", b"d"], dtype=h5.special_dtype(vlen=str))[()])
        step("vlen list of str", lambda: f.create_dataset("vl2", data=["abc", "d"], dtype=h5.special_dtype(vlen=str))[()])
        step("float list", lambda: f.create_dataset("fl", data=[1.0, 2.0])[()])
        step("int list with dtype None", lambda: f.create_dataset("il", data=[1, 2], dtype=None)[()])
        step("empty float", lambda: f.create_dataset("ef", data=np.array([]))[()])
        step("create_group dup", lambda: f.create_group("x"))
        step("require_group on dataset", lambda: f.require_group("size"))
        step("create_dataset nested name", lambda: (f.create_dataset("n1/n2/d", data=1.0), "n1/n2" in f, f["n1/n2/d"][()])[1:])
        step("del", lambda: f.__delitem__("size"))
        step("del missing", lambda: f.__delitem__("size"))
        step("del group", lambda: (f.__delitem__("n1"), "n1" in f)[1])
        step("attrs", lambda: dict(f.attrs))
        f.attrs["version"] = 2
        step("attrs get", lambda: (f.attrs.get("version"), f.attrs.get("nope"), f.attrs["version"] > 1))
        dsa = f.create_dataset("withattrs", data=np.array([1.0]))
        dsa.attrs.create("indices", np.array([1, 2], dtype=np.int32)); dsa.attrs.create("sparse", True); dsa.attrs.create("shape", (2, 3))
        step("ds attrs", lambda: (dsa.attrs.get("indices"), dsa.attrs.get("sparse"), dsa.attrs.get("shape"), dsa.attrs.get("x")))
        step("bools", lambda: (bool(f), bool(x), bool(ds)))
        step("filename", lambda: os.path.basename(f.filename))
        step("group eq", lambda: (f["x"] == x, f["x"] == k))
    step("closed", lambda: (bool(f), bool(x)))
    step("closed use", lambda: list(f))
    step("closed group use", lambda: len(x))
    step("is_hdf5", lambda: h5.is_hdf5(p))
    with h5.File(p) as f:
        step("default mode", lambda: f.mode)
        step("write in r", lambda: f.create_dataset("zz", data=1.0))
        step("require_group existing in r", lambda: len(f.require_group("x")))
        step("require_group new in r", lambda: f.require_group("xnew"))
        step("setitem in r", lambda: f["v/0"].__setitem__(0, 3.0))
        step("resize in r", lambda: f["v/0"].resize((2,)))
        step("del in r", lambda: f.__delitem__("x"))
        step("persisted", lambda: (list(f), [o.decode() for o in f["k/0"]], f["v/0"][()]))
    with h5.File(p, "r+") as f:
        step("r+ mode", lambda: (f.mode, list(f)[:3]))
    step("x existing", lambda: h5.File(p, "x"))
    with h5.File(p, "w") as f:
        step("after w", lambda: list(f))
    with h5.File(p, "a") as f:
        f.create_dataset("one", data=1.0)
        with h5.File(p, "a") as f2:
            f2.create_dataset("two", data=2.0)
            step("nested sees", lambda: list(f2))
        step("after nested close", lambda: list(f))
        step("w while open", lambda: h5.File(p, "w"))
        with h5.File(p, "r") as f3:
            step("nested r", lambda: (list(f3), f3.mode))
    step("string_dtype eq", lambda: h5.string_dtype() == h5.special_dtype(vlen=str))
    return out


def main():
    d = tempfile.mkdtemp()
    try:
        real = scenario(h5py, os.path.join(d, "a.h5"))
    finally:
        shutil.rmtree(d, ignore_errors=True)
    fake = scenario(FakeH5(), "/h5fake/a.h5")
    bad = 0
    for (l1, r), (l2, f) in zip(real, fake):
        if r != f:
            bad += 1
            print(f"DIFF {l1}:\n   real {r}\n   fake {f}")
    if len(real) != len(fake):
        bad += 1
        print("different number of steps", len(real), len(fake))
    print(f"{len(real)} steps compared, {bad} differences")
    return 1 if bad else 0


if __name__ == "__main__":
    sys.exit(main())
