"""Development helper: run one configuration of a harness in-process and print stats.
usage: tools/one.py C01 <index or json cfg> [harness] [--wall S]"""
import sys, json, time, logging
sys.path.insert(0, "/verif")
import symgem.run as R
from symgem.core import Explorer, Replayer
logging.disable(logging.CRITICAL)
prop = sys.argv[1]
mod = R._load(prop)
arg = sys.argv[2]
if arg.lstrip("-").isdigit():
    h, cfg = mod.configs("quick")[int(arg)]
else:
    cfg = json.loads(arg); h = sys.argv[3]
wall = float(sys.argv[sys.argv.index("--wall") + 1]) if "--wall" in sys.argv else 60
print(h, cfg)
t = time.time()
ex = Explorer(wall_budget_s=wall, max_paths=100000, selftest_paths=2)
ex.run(mod.HARNESSES[h], cfg)
print("wall", round(time.time() - t, 2), ex.stats)
print("inconclusive", ex.inconclusive[:5])
seen = set()
for v in ex.violations:
    k = (v["label"], v.get("site"))
    if k in seen: continue
    seen.add(k)
    ok, info = R._replay_violation(mod, h, cfg, v)
    print("VIOL", v["label"], v.get("site"), v.get("message", v.get("formula", ""))[:300], "\n   model", json.dumps(v["model"]["vars"]), "\n   reproduced:", ok, info, "\n   tb:", v.get("tb"))
for pm in ex.path_models:
    rp = Replayer(pm["model"]).run(mod.HARNESSES[h], cfg)
    bad = [l for l, ok in rp.results if not ok]
    print("selftest: exception", rp.exception, "failed", bad[:5], "obs mismatch", R._compare_observed(pm["observed"], rp.observed)[:3])
