"""Stand-alone reproduction (public gemseo API, plain float64): run with
PYTHONPATH=/repo/src /venv/bin/python tools/repro_C07_lu_unrelated_residual.py

Property C07: the total derivatives do not depend on the LU option nor on the requested subset of outputs.

System: a discipline with a residual/state pair that is NOT on any coupling path of the request, next to a strongly coupled pair:

    Implicit: x, w -> w, r, f    (state w solves r = A w - B x = 0;  f = C w + D x)
    DA:       x, yb -> ya
    DB:       ya    -> yb, h

Requesting only h wrt x: ``BaseMDA._compute_jacobian`` hands the residual variables of ALL disciplines to
``JacobianAssembly.total_derivatives`` while ``traverse_add_diff_io_mda`` does not differentiate ``Implicit`` (h does not depend on it):
its dr/dw block is absent, so the assembled dR/dy has a zero diagonal block for (r, w).  With ``use_lu_fact=True`` SuperLU raises
``RuntimeError: Factor is exactly singular``; without LU the Krylov solver happens to return the right answer on the singular but
consistent system.  The coupled system itself is perfectly regular (A and I - Qa Qb are well conditioned).

Exit code 1 when some configuration fails (defect present), 0 otherwise.
"""
import logging
import sys

import numpy as np
from gemseo.core.discipline import Discipline
from gemseo.mda.gauss_seidel import MDAGaussSeidel
from gemseo.mda.jacobi import MDAJacobi

logging.disable(logging.CRITICAL)

A, B, C, D = 4.0, 1.5, -0.7, 0.3
Pa, Qa, Qb, H = 0.8, 0.25, -0.5, 2.0


def m(v):
    return np.array([[v]])


class Implicit(Discipline):
    def __init__(self):
        super().__init__(name="Implicit")
        self.io.input_grammar.update_from_names(["x", "w"])
        self.io.output_grammar.update_from_names(["w", "r", "f"])
        self.io.input_grammar.defaults = {"x": np.ones(1), "w": np.zeros(1)}
        self.io.residual_to_state_variable = {"r": "w"}
        self.io.state_equations_are_solved = True

    def _run(self, input_data):
        x = input_data["x"]
        w = B * x / A
        return {"w": w, "r": A * w - B * x, "f": C * w + D * x}

    def _compute_jacobian(self, input_names=(), output_names=()):
        self.jac = {"r": {"w": m(A), "x": m(-B)}, "f": {"w": m(C), "x": m(D)}, "w": {"w": m(0.0), "x": m(B / A)}}


class DA(Discipline):
    def __init__(self):
        super().__init__(name="DA")
        self.io.input_grammar.update_from_names(["x", "yb"])
        self.io.output_grammar.update_from_names(["ya"])
        self.io.input_grammar.defaults = {"x": np.ones(1), "yb": np.zeros(1)}

    def _run(self, input_data):
        return {"ya": Pa * input_data["x"] + Qa * input_data["yb"]}

    def _compute_jacobian(self, input_names=(), output_names=()):
        self.jac = {"ya": {"x": m(Pa), "yb": m(Qa)}}


class DB(Discipline):
    def __init__(self):
        super().__init__(name="DB")
        self.io.input_grammar.update_from_names(["ya"])
        self.io.output_grammar.update_from_names(["yb", "h"])
        self.io.input_grammar.defaults = {"ya": np.zeros(1)}

    def _run(self, input_data):
        return {"yb": Qb * input_data["ya"], "h": H * input_data["ya"]}

    def _compute_jacobian(self, input_names=(), output_names=()):
        self.jac = {"yb": {"ya": m(Qb)}, "h": {"ya": m(H)}}


REF = {"f": D + C * B / A, "h": H * Pa / (1 - Qa * Qb)}
print("closed form:", REF)
bad = 0
for cls in (MDAGaussSeidel, MDAJacobi):
    for outputs in (["f", "h"], ["f"], ["h"]):
        for lu in (False, True):
            for mode in ("direct", "adjoint", "auto"):
                mda = cls([Implicit(), DA(), DB()], tolerance=1e-14, max_mda_iter=100, use_lu_fact=lu)
                mda.linearization_mode = mode
                mda.add_differentiated_inputs(["x"])
                mda.add_differentiated_outputs(outputs)
                try:
                    jac = mda.linearize({"x": np.array([0.3])})
                    got = {o: float(np.asarray(jac[o]["x"]).ravel()[0]) for o in outputs}
                    ok = all(abs(got[o] - REF[o]) < 1e-9 for o in outputs)
                    msg = f"{got} {'ok' if ok else 'WRONG'}"
                except Exception as e:  # noqa: BLE001
                    ok, msg = False, f"raises {type(e).__name__}: {e}"
                bad += not ok
                if not ok or mode == "direct":
                    print(f"  {cls.__name__:15s} outputs={outputs!s:12s} use_lu_fact={lu!s:5s} {mode:8s} {msg}")
print("DEFECT PRESENT" if bad else "no defect", f"({bad} failing configurations)")
sys.exit(1 if bad else 0)
