#!/usr/bin/env python3
"""Run the pinned suite (or a subset of paths) in parallel and compare the passing set with BASELINE.json."""
import json, subprocess, sys, tempfile, os, xml.etree.ElementTree as ET
REPO = os.environ.get("BASELINE_REPO", "/repo")  # a scratch worktree can be tested: its src/ is put first on PYTHONPATH
ENV = dict(os.environ, PYTHONPATH=f"{REPO}/src")
paths = [p for p in (sys.argv[1:] or ["tests"]) if os.path.exists(os.path.join(os.environ.get("BASELINE_REPO", "/repo"), p))]
for p in sys.argv[1:]:
    if p not in paths:
        print(f"(ignored, does not exist: {p})")
base = set(json.load(open("/root/.vp/BASELINE.json"))["stable_pass"])
with tempfile.TemporaryDirectory() as d:
    x = os.path.join(d, "j.xml")
    subprocess.run(["/venv/bin/python", "-m", "pytest", "-q", "-p", "no:cacheprovider", "--timeout=900", "--continue-on-collection-errors",
                    "-n", "14", f"--junitxml={x}", *paths], cwd=REPO, env=ENV, stdout=subprocess.DEVNULL, stderr=subprocess.DEVNULL)
    passed, failed = set(), set()
    for tc in ET.parse(x).getroot().iter("testcase"):
        name = f"{tc.get('classname')}::{tc.get('name')}"
        bad = any(c.tag in ("failure", "error") for c in tc)
        skipped = any(c.tag == "skipped" for c in tc)
        if bad: failed.add(name)
        elif not skipped: passed.add(name)
sel = {b for b in base if any(b.startswith(p.rstrip("/").replace("/", ".").removesuffix(".py")) for p in paths)} if paths != ["tests"] else base
missing = sorted(sel - passed)
if missing and len(missing) <= 60:
    # xdist artefacts (tests writing in the cwd): re-run the missing ones serially, as the pinned command does
    files = sorted({m.split("::")[0].replace(".", "/") + ".py" for m in missing})
    with tempfile.TemporaryDirectory() as d:
        x = os.path.join(d, "j.xml")
        subprocess.run(["/venv/bin/python", "-m", "pytest", "-q", "-p", "no:cacheprovider", "--timeout=900", f"--junitxml={x}", *files],
                       cwd=REPO, env=ENV, stdout=subprocess.DEVNULL, stderr=subprocess.DEVNULL)
        for tc in ET.parse(x).getroot().iter("testcase"):
            if not any(c.tag in ("failure", "error", "skipped") for c in tc):
                passed.add(f"{tc.get('classname')}::{tc.get('name')}")
    missing = sorted(sel - passed)
print(f"passed={len(passed)} failed={len(failed)} baseline_selected={len(sel)} baseline_missing={len(missing)}")
for m in missing[:40]: print("  MISSING", m)
sys.exit(1 if missing else 0)
