from gemseo.algos.opt.factory import OptimizationLibraryFactory
from gemseo.problems.optimization.power_2 import Power2
p = Power2()
OptimizationLibraryFactory().execute(p, algo_name="DIFFERENTIAL_EVOLUTION", max_iter=20)
r = OptimizationLibraryFactory().execute(p, algo_name="SLSQP", max_iter=5)
print("second run returned", type(r).__name__)
