import os, tempfile
from numpy import array
from gemseo.algos.database import Database
d = tempfile.mkdtemp()
a, b = os.path.join(d, "a.h5"), os.path.join(d, "b.h5")
db = Database()
db.store(array([1.0]), {"f": 1.0})
db.to_hdf(a, append=True)          # incremental export, step 1
db.store(array([2.0]), {"f": 2.0})
db.to_hdf(b)                       # a full export elsewhere (e.g. a snapshot)
db.store(array([3.0]), {"f": 3.0})
db.to_hdf(a, append=True)          # incremental export, step 2
try:
    print(len(Database.from_hdf(a)), "entries reloaded from the incremental file; the database has", len(db))
except Exception as e:
    print("reload of the incremental file failed:", type(e).__name__, e)
