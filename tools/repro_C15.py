"""Stand-alone reproductions (public API only) of the C15 findings on the pinned gemseo tree.  Run: /venv/bin/python repro.py"""
import logging
logging.disable(logging.CRITICAL)
from numpy import array
from gemseo.core.grammars.errors import InvalidDataError
from gemseo.core.grammars.json_grammar import JSONGrammar
from gemseo.core.grammars.simple_grammar import SimpleGrammar
from gemseo.core.namespaces import split_namespace


def accepts(g, data):
    try:
        g.validate(data)
        return True
    except InvalidDataError:
        return False


print("== F6: a copy shares its required names with (and checks them against) the original grammar")
for cls in (SimpleGrammar, JSONGrammar):
    g = cls("g")
    g.update_from_names(["a", "b"])
    c = g.copy()
    c.required_names.discard("a")
    print(f"  {cls.__name__}: after copy.required_names.discard('a'): original requires {sorted(g.required_names)} (expected ['a', 'b'])")
    c = g.copy()
    try:
        c.update_from_names(["x"])
        print("  update_from_names(['x']) on the copy: ok")
    except KeyError as e:
        print(f"  {cls.__name__}: copy.update_from_names(['x']) raises KeyError({e})")

print("== F1: schema / to_json omit 'required' for a grammar built by update_from_types")
g = JSONGrammar("g")
g.update_from_types({"a": int})
print("  required_names:", sorted(g.required_names), "| schema:", g.schema, "| to_json:", g.to_json())
g.to_file("g.json")
h = JSONGrammar("h", file_path="g.json")
print("  written to a file and read back: required_names:", sorted(h.required_names), "| validate({}) original:", accepts(g, {}), "reloaded:", accepts(h, {}))

print("== F2: validate() removes 'required' from the schema view")
g = JSONGrammar("g")
g.update_from_names(["a"])
before = dict(g.schema)
g.validate({"a": array([1.0])})
print("  schema['required'] before validate:", before.get("required"), "| after:", g.schema.get("required"))

print("== F8: required_names.add/discard do not refresh the cached schema view")
g = JSONGrammar("g")
g.update_from_names(["a", "b"])
g.schema
g.required_names.discard("a")
print("  required_names:", sorted(g.required_names), "| schema['required']:", g.schema.get("required"), "| to_json:", g.to_json())

print("== F3: update_from_schema loses the schema's required names on a grammar that was already updated")
S = {"$schema": "http://json-schema.org/draft-04/schema", "type": "object", "properties": {"c": {"type": "integer"}}, "required": ["c"]}
g = JSONGrammar("g")
g.update_from_schema(S)
print("  fresh grammar                 :", sorted(g.required_names))
g = JSONGrammar("g")
g.update_from_names(["a"])
g.update_from_schema(S)
print("  after update_from_names(['a']):", sorted(g.required_names), "(expected ['a', 'c']); validate({'a': array}) accepted:", accepts(g, {"a": array([1.0])}))
g = JSONGrammar("g")
g.update_from_schema({"type": "object", "properties": {"b": {"type": "string"}}, "required": ["b"]})
g.update_from_schema(S)
print("  after another update_from_schema:", sorted(g.required_names), "(expected ['b', 'c'])")

print("== F5: to_simple_grammar / SimpleGrammar.update(JSONGrammar)")
g = JSONGrammar("g")
g.update_from_types({"x": float})
s = g.to_simple_grammar()
print("  float element: converted type", s["x"], "| validate({'x': 1.5}) json:", accepts(g, {"x": 1.5}), "simple:", accepts(s, {"x": 1.5}))
for label, build in (("element typed None", lambda g: g.update_from_types({"x": None})),
                     ("merged int|str", lambda g: (g.update_from_types({"x": int}), g.update_from_types({"x": str}, merge=True))),
                     ("merged int|array", lambda g: (g.update_from_types({"x": int}), g.update_from_names(["x"], merge=True)))):
    g = JSONGrammar("g")
    build(g)
    try:
        print(f"  {label}: ", dict(g.to_simple_grammar()))
    except Exception as e:
        print(f"  {label}: to_simple_grammar raises {type(e).__name__}({e})")
s = SimpleGrammar("s")
g = JSONGrammar("g")
g.update_from_types({"x": None})
try:
    s.update(g)
except Exception as e:
    print(f"  SimpleGrammar.update(JSONGrammar with an element typed None) raises {type(e).__name__}({e})")

print("== F7: split_namespace splits at every separator (docstring: 'my:namespace:a' -> ('my:namespace', 'a'))")
print("  split_namespace('my:namespace:a') =", split_namespace("my:namespace:a"))

print("== F4 (observation): merging an element typed None with a typed one keeps only the typed one")
g = JSONGrammar("g")
g.update_from_types({"x": None})
print("  before merge, validate({'x': 's'}):", accepts(g, {"x": "s"}))
g.update_from_types({"x": int}, merge=True)
print("  after merge with int, validate({'x': 's'}):", accepts(g, {"x": "s"}), "| schema:", g.schema["properties"])
