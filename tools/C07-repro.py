"""Stand-alone reproduction of the C07 findings (public gemseo API, plain numpy/scipy): run with /venv/bin/python."""
import logging
import numpy as np
from gemseo.core.discipline import Discipline
from gemseo.mda.gauss_seidel import MDAGaussSeidel

logging.disable(logging.CRITICAL)


class Lin(Discipline):
    """Linear discipline: every output = sum_i c_i * input_i (+1)."""

    def __init__(self, name, ins, outs, c=0.25):
        super().__init__(name=name)
        self.io.input_grammar.update_from_names(ins)
        self.io.output_grammar.update_from_names(outs)
        self.io.input_grammar.defaults = {k: np.zeros(1) for k in ins}
        self.c, self.ins, self.outs = c, ins, outs

    def _run(self, input_data):
        return {o: sum(self.c * (1 + n) * input_data[i] for n, i in enumerate(self.ins)) + 1.0 for o in self.outs}

    def _compute_jacobian(self, input_names=(), output_names=()):
        self.jac = {o: {i: np.array([[self.c * (1 + n)]]) for n, i in enumerate(self.ins)} for o in self.outs}


def weak():  # up -> (d0 <-> d1) -> down
    return [Lin("up", ["x"], ["a"]), Lin("d0", ["a", "y1"], ["y0"]), Lin("d1", ["u", "y0"], ["y1", "g"]), Lin("down", ["y1", "w"], ["h"])]


def total(discs, inputs, outputs, point):
    mda = MDAGaussSeidel(discs, tolerance=1e-14, max_mda_iter=200)
    mda.add_differentiated_inputs(inputs)
    mda.add_differentiated_outputs(outputs)
    jac = mda.linearize(point)
    return {o: {i: np.asarray(jac[o][i].todense() if hasattr(jac[o][i], "todense") else jac[o][i]).ravel().tolist() for i in inputs} for o in outputs}


p = {k: np.array([1.0]) for k in "xuw"}
print("reference, full request:", total(weak(), ["x", "u", "w"], ["a", "y0", "y1", "g", "h"], p))
for inputs, outputs in ((["w"], ["h"]), (["u"], ["a", "g"])):
    try:
        print(inputs, outputs, total(weak(), inputs, outputs, p))
    except Exception as e:
        print(f"FINDING: request d{outputs}/d{inputs} raises {type(e).__name__}: {e}")


# ---- a discipline with a residual/state pair (state equations solved by the discipline) -------------------------
class D0(Discipline):
    def __init__(self):
        super().__init__(name="d0")
        self.io.input_grammar.update_from_names(["x", "y1"])
        self.io.output_grammar.update_from_names(["y0", "f"])
        self.io.input_grammar.defaults = {"x": np.zeros(1), "y1": np.zeros(1)}

    def _run(self, input_data):
        return {"y0": 2 * input_data["x"] + 0.25 * input_data["y1"], "f": input_data["x"] + 3 * input_data["y1"]}

    def _compute_jacobian(self, input_names=(), output_names=()):
        self.jac = {"y0": {"x": np.array([[2.0]]), "y1": np.array([[0.25]])}, "f": {"x": np.array([[1.0]]), "y1": np.array([[3.0]])}}


class B(Discipline):
    """State s solves r = 2 s - y0 - u = 0; the coupling y1 = s/2 + y0/8 and the function g = s + y0 depend directly on the state."""

    def __init__(self):
        super().__init__(name="B")
        self.io.input_grammar.update_from_names(["y0", "u", "s"])
        self.io.output_grammar.update_from_names(["s", "r", "y1", "g"])
        self.io.input_grammar.defaults = {"y0": np.zeros(1), "u": np.zeros(1), "s": np.zeros(1)}
        self.io.residual_to_state_variable = {"r": "s"}
        self.io.state_equations_are_solved = True

    def _run(self, input_data):
        s = (input_data["y0"] + input_data["u"]) / 2
        return {"s": s, "r": 2 * s - input_data["y0"] - input_data["u"], "y1": 0.5 * s + 0.125 * input_data["y0"], "g": s + input_data["y0"]}

    def _compute_jacobian(self, input_names=(), output_names=()):
        one = lambda v: np.array([[v]])
        self.jac = {"r": {"s": one(2.0), "y0": one(-1.0), "u": one(-1.0)}, "y1": {"s": one(0.5), "y0": one(0.125), "u": one(0.0)},
                    "g": {"s": one(1.0), "y0": one(1.0), "u": one(0.0)}, "s": {"s": one(0.0), "y0": one(0.5), "u": one(0.5)}}


def values(x, u):
    out = MDAGaussSeidel([D0(), B()], tolerance=1e-14, max_mda_iter=200).execute({"x": np.array([x]), "u": np.array([u])})
    return {k: float(out[k][0]) for k in ("f", "y1", "g")}


h = 1e-6
v0, vx, vu = values(1.0, 2.0), values(1.0 + h, 2.0), values(1.0, 2.0 + h)
fd = {k: {"x": [round((vx[k] - v0[k]) / h, 5)], "u": [round((vu[k] - v0[k]) / h, 5)]} for k in v0}
lin = total([D0(), B()], ["x", "u"], ["f", "y1", "g"], {"x": np.array([1.0]), "u": np.array([2.0])})
print("finite differences of the converged MDA:", fd)
print("MDA.linearize                          :", {o: {i: [round(v, 5) for v in b] for i, b in r.items()} for o, r in lin.items()})
for o in fd:
    for i in fd[o]:
        if abs(fd[o][i][0] - lin[o][i][0]) > 1e-4:
            print(f"FINDING: d{o}/d{i}: linearize gives {lin[o][i][0]:.6f}, the derivative of the converged solution is {fd[o][i][0]:.6f}")
