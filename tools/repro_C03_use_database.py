"""C03 known finding: with use_database=False the evaluation budget max_iter is not enforced.
Run: PYTHONPATH=/repo/src /venv/bin/python tools/repro_C03_use_database.py  (exit 1 = defect present)"""
import sys
from gemseo.algos.opt.factory import OptimizationLibraryFactory
from gemseo.problems.optimization.rosenbrock import Rosenbrock

bad = 0
for algo in ["SLSQP", "L-BFGS-B"]:
    p = Rosenbrock()
    pts = []
    f0 = p.objective.func

    def f(x, f0=f0):
        pts.append(tuple(x))
        return f0(x)

    p.objective.func = f
    r = OptimizationLibraryFactory().execute(p, algo_name=algo, max_iter=5, use_database=False)
    n = len(set(pts))
    print(f"{algo}: max_iter=5, objective called at {n} distinct points, x_opt={r.x_opt}")
    bad += n > 5
sys.exit(1 if bad else 0)
