"""C13: CallableParallelExecution.execute([]) raises UnboundLocalError (threads and processes) instead of returning [].
The loop that collects the outputs never runs, so the variable ``output`` tested after the joins is unbound.

Run: PYTHONPATH=/repo/src /venv/bin/python /verif/tools/repro_C13_empty_task_list.py
"""
from gemseo.core.parallel_execution.callable_parallel_execution import CallableParallelExecution


def f(x):
    return 2 * x


bad = 0
for use_threading in (True, False):
    try:
        out = CallableParallelExecution([f], n_processes=2, use_threading=use_threading).execute([])
        print("use_threading =", use_threading, "->", out)
        bad += out != []
    except Exception as e:  # noqa: BLE001
        print("use_threading =", use_threading, "->", type(e).__name__, e)
        bad += 1
raise SystemExit(1 if bad else 0)
