"""C06: the ``scaling`` setter of an MDA keeps the scaling data of the previous scaling mode.

``BaseMDA.scaling`` (src/gemseo/mda/base_mda.py, the setter; also the overloads in mda_chain.py / sequential_mda.py) only stores the new
mode; ``_scaling_data`` (the reference computed at the first residual evaluation of the object's life, base_mda_solver.py
``_compute_normalized_residual_norm``) is kept.  After one execution with the default INITIAL_RESIDUAL_NORM scaling, switching to
N_COUPLING_VARIABLES divides the residual norm by the OLD reference (the initial residual norm of the first run) instead of sqrt(n):
the MDA claims convergence although ||R|| / sqrt(n) is far above the tolerance, and the returned couplings do not satisfy the disciplines.
Switching to INITIAL_SUBRESIDUAL_NORM even raises a TypeError.

Run: PYTHONPATH=/repo/src /venv/bin/python /verif/tools/repro_C06_scaling_setter.py
"""
import logging

from numpy import array

from gemseo.disciplines.analytic import AnalyticDiscipline
from gemseo.mda.gauss_seidel import MDAGaussSeidel
from gemseo.mda.jacobi import MDAJacobi

logging.disable(logging.CRITICAL)


def make(cls, **kw):
    d0 = AnalyticDiscipline({"y0": "0.5*y1 + x"}, name="d0")
    d1 = AnalyticDiscipline({"y1": "-y0/3 + 2*x"}, name="d1")
    return cls([d0, d1], tolerance=1e-6, max_mda_iter=100, **kw)


def gap(out, x):
    """max |G_i(y) - y_i| at the returned couplings."""
    y0, y1 = out["y0"][0], out["y1"][0]
    return max(abs(0.5 * y1 + x - y0), abs(-y0 / 3 + 2 * x - y1))


failed = False
for cls, kw in ((MDAGaussSeidel, {}), (MDAJacobi, {"n_processes": 1, "acceleration_method": "NoTransformation"})):
    # reference: a fresh MDA with the N_COUPLING_VARIABLES scaling
    fresh = make(cls, **kw)
    fresh.scaling = "n_coupling_variables"
    out = fresh.execute({"x": array([2e6]), "y0": array([0.0]), "y1": array([0.0])})
    g_fresh = gap(out, 2e6)

    mda = make(cls, **kw)
    mda.execute({"x": array([1e6]), "y0": array([0.0]), "y1": array([0.0])})    # default scaling: initial residual norm
    mda.scaling = "n_coupling_variables"
    out = mda.execute({"x": array([2e6]), "y0": array([0.0]), "y1": array([0.0])})
    g = gap(out, 2e6)
    print(f"{cls.__name__}: reported normed residual {mda.normed_residual:.3e} (tolerance 1e-6), iterations {len(mda.residual_history)}; "
          f"fixed-point gap of the returned couplings {g:.3e} (fresh MDA with the same scaling: {g_fresh:.3e})")
    if g > 1e-3:
        failed = True

    mda = make(cls, **kw)
    mda.execute({"x": array([1e6]), "y0": array([0.0]), "y1": array([0.0])})
    mda.scaling = "initial_subresidual_norm"
    try:
        mda.execute({"x": array([2e6]), "y0": array([0.0]), "y1": array([0.0])})
        print(f"{cls.__name__}: switch to initial_subresidual_norm: executed")
    except Exception as e:  # noqa: BLE001
        failed = True
        print(f"{cls.__name__}: switch to initial_subresidual_norm raises {type(e).__name__}: {e}")

print("DEFECT REPRODUCED" if failed else "not reproduced")
raise SystemExit(1 if failed else 0)
