"""C05: full cache with a tolerance: an entry holding a Jacobian only (linearize(..., execute=False)) hid the later entry holding the
outputs of a close input, so the body ran again at every execution of that same input.  Exit 1 = defect present."""
import sys
from numpy import array
from gemseo.core.discipline import Discipline

class D(Discipline):
    n_run = 0
    def __init__(self):
        super().__init__()
        self.io.input_grammar.update_from_names(["x"]); self.io.output_grammar.update_from_names(["y"])
        self.io.input_grammar.defaults = {"x": array([0.0])}
    def _run(self, input_data):
        D.n_run += 1
        return {"y": input_data["x"] ** 2}
    def _compute_jacobian(self, input_names=(), output_names=()):
        self.jac = {"y": {"x": 2 * self.io.data["x"].reshape(1, 1)}}

d = D()
d.set_cache(d.CacheType.MEMORY_FULL, tolerance=1e-3)
d.execute({"x": array([5.0])})
d.linearize({"x": array([1.0])}, compute_all_jacobians=True, execute=False)
n0 = D.n_run
for _ in range(3):
    d.execute({"x": array([1.0005])})
print("the body ran", D.n_run - n0, "times for three executions at the same input")
sys.exit(1 if D.n_run - n0 > 1 else 0)
