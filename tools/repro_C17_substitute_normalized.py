"""Observation (NOT asserted by the C17 check: the documentation is silent): MDF(differentiated_input_names_substitute=...) on a
normalized problem.  ProblemFunction normalizes the "Jacobian" position-wise with the ranges of the design variables in design-space
order, although its columns follow the substitute.

run: PYTHONPATH=/repo/src /venv/bin/python /verif/tools/repro_C17_substitute_normalized.py
"""
from numpy import array

from gemseo.algos.design_space import DesignSpace
from gemseo.disciplines.analytic import AnalyticDiscipline
from gemseo.formulations.mdf import MDF


def build(substitute):
    d1 = AnalyticDiscipline({"y1": "x + 0.5*y2 + z"}, name="d1")
    d2 = AnalyticDiscipline({"y2": "-y1/3 + 2*z"}, name="d2")
    d3 = AnalyticDiscipline({"f": "3*x + 5*z + y1 - y2"}, name="d3")
    ds = DesignSpace()
    ds.add_variable("x", lower_bound=0.0, upper_bound=1.0, value=0.5)   # range 1
    ds.add_variable("z", lower_bound=-1.0, upper_bound=3.0, value=1.0)  # range 4
    kw = dict(differentiated_input_names_substitute=substitute) if substitute else {}
    mdf = MDF([d1, d2, d3], "f", ds, main_mda_settings=dict(tolerance=1e-14, max_mda_iter=50), **kw)
    return mdf.optimization_problem


xn = array([0.25, 0.5])
ref = build(())
ref.preprocess_functions(is_function_input_normalized=True, use_database=False)
print("design order (x, z), normalized   :", ref.objective.jac(xn), " = physical (df/dx, df/dz) * (1, 4)")

phys = build(("z", "x"))
print("substitute (z, x), physical       :", phys.objective.jac(array([0.25, 1.0])), " = (df/dz, df/dx)")

sub = build(("z", "x"))
sub.preprocess_functions(is_function_input_normalized=True, use_database=False)
print("substitute (z, x), normalized     :", sub.objective.jac(xn), " = (df/dz * 1, df/dx * 4): each column scaled with the range of the OTHER variable")
