"""Stand-alone reproduction of the C20 finding (plain gemseo public API, float64): /venv/bin/python /verif/tools/C20-repro.py

FINDING  C20-memory-full-cache-not-serializable
    A discipline (hence any chain, MDA or scenario holding one) whose cache is a MemoryFullCache - shared or not - cannot be
    serialized by pickle.dumps, copy.deepcopy or gemseo.to_pickle: RuntimeError "RLock objects should only be shared between
    processes through inheritance" (the multiprocessing RLock / Value / manager dictionary of BaseFullCache are pickled as they are).
    The other cache policies (none, SimpleCache, HDF5Cache) round-trip.  Proposed repair: /verif/tools/C20-fix-proposal.diff
    (MemoryFullCache.__getstate__/__setstate__: locks dropped and re-created, counters and dictionaries serialized by value).

OBSERVATION (not asserted by the check, the property only says that a file-based cache "stays attached to its file")
    After a round trip the original and the restored discipline hold two HDF5Cache objects on the same file and node, each with its
    own entry counter read when it was created: as soon as both record a NEW input, the second one raises
    RuntimeError('Failed to cache dataset ...') because the entry index already exists in the file.
"""
import copy
import logging
import os
import pickle
import shutil
import sys
import tempfile

sys.path.insert(0, os.path.join(os.environ.get("VERIF_REPO", "/repo"), "src"))
logging.disable(logging.CRITICAL)

from numpy import array  # noqa: E402

from gemseo import from_pickle  # noqa: E402
from gemseo import to_pickle  # noqa: E402
from gemseo.disciplines.analytic import AnalyticDiscipline  # noqa: E402

tmp = tempfile.mkdtemp(dir="/tmp")
failed = 0
try:
    for shared in (False, True):
        d = AnalyticDiscipline({"y": "2*x+3*z*x"})
        d.set_cache(d.CacheType.MEMORY_FULL, is_memory_shared=shared)
        d.execute({"x": array([0.5]), "z": array([2.0])})
        for route, f in (("pickle.dumps", lambda o: pickle.loads(pickle.dumps(o))), ("copy.deepcopy", copy.deepcopy),
                         ("gemseo.to_pickle", lambda o: (to_pickle(o, os.path.join(tmp, "d.pkl")), from_pickle(os.path.join(tmp, "d.pkl")))[1])):
            try:
                r = f(d)
                print(f"MemoryFullCache(is_memory_shared={shared}) {route}: ok, {len(r.cache)} entry carried over")
            except Exception as e:  # noqa: BLE001
                failed += 1
                print(f"MemoryFullCache(is_memory_shared={shared}) {route}: {type(e).__name__}: {e}")

    # observation: two live HDF5Cache handles on one node
    d = AnalyticDiscipline({"y": "2*x+3*z*x"})
    d.set_cache(d.CacheType.HDF5, hdf_file_path=os.path.join(tmp, "cache.h5"), hdf_node_path="node")
    d.execute({"x": array([0.5]), "z": array([2.0])})
    r = pickle.loads(pickle.dumps(d))
    r.execute({"x": array([1.0]), "z": array([1.0])})      # the restored one records entry 2 in the file
    try:
        d.execute({"x": array([3.0]), "z": array([1.0])})  # the original still believes the file holds one entry
        print("HDF5Cache, original and restored both recording new inputs: ok")
    except RuntimeError as e:
        print("HDF5Cache, original and restored both recording new inputs (observation):", type(e).__name__, str(e.args[0])[:60], e.args[1:3])
finally:
    shutil.rmtree(tmp, ignore_errors=True)
print("FINDING REPRODUCED" if failed else "finding not reproduced")
sys.exit(1 if failed else 0)
