#!/usr/bin/env python3
"""Development-time mutation testing: apply each /verif/mutants/<ID>-*.patch to a scratch worktree of /repo HEAD
(outside /repo and /verif), run the property's check against it (VERIF_REPO), expect exit 1 + VIOLATION, remove the worktree.
usage: tools/mutants.py C01 [patch-name-regex] [--tier quick]"""
import os, re, subprocess, sys, glob, tempfile, shutil
prop = sys.argv[1]
rx = sys.argv[2] if len(sys.argv) > 2 and not sys.argv[2].startswith("--") else ""
tier = sys.argv[sys.argv.index("--tier") + 1] if "--tier" in sys.argv else "quick"
patches = sorted(p for p in glob.glob(f"/verif/mutants/{prop}-*.patch") if re.search(rx, p))
res = []
for p in patches:
    wt = tempfile.mkdtemp(prefix="wt_mut_", dir="/tmp")
    os.rmdir(wt)
    try:
        subprocess.run(["git", "-C", "/repo", "worktree", "add", "-q", "--detach", wt, "HEAD"], check=True)
        # carry uncommitted /repo changes (none expected) is not attempted: mutants apply to HEAD
        a = subprocess.run(["git", "-C", wt, "apply", p], capture_output=True, text=True)
        if a.returncode:
            res.append((p, "PATCH-DOES-NOT-APPLY", a.stderr.strip()[:200])); continue
        r = subprocess.run(["/verif/check", prop, "--tier", tier, "--no-evidence"], env=dict(os.environ, VERIF_REPO=wt, PYTHONWARNINGS="ignore"),
                           capture_output=True, text=True, cwd="/verif")
        viol = [l for l in r.stdout.splitlines() if l.startswith("VIOLATION")]
        detail = next((l.strip()[:260] for l in r.stdout.splitlines() if l.strip().startswith("harness=")), "")
        res.append((p, "CAUGHT" if r.returncode == 1 and viol else f"MISSED(exit={r.returncode})", detail or r.stdout[-300:]))
    finally:
        subprocess.run(["git", "-C", "/repo", "worktree", "remove", "--force", wt], capture_output=True)
        shutil.rmtree(wt, ignore_errors=True)
        shutil.rmtree("/verif/evidence/replays", ignore_errors=True) if False else None
for p, v, d in res:
    print(f"{v:28s} {os.path.basename(p)}  {d}")
sys.exit(0 if all(v == "CAUGHT" for _, v, _ in res) else 1)
