"""Two defects of ParameterSpace found by the C19 check (public API only, plain float64; run with /venv/bin/python).

(1) ``ParameterSpace.normalize_vect`` / ``unnormalize_vect`` silently ignore the documented argument ``minus_lb``
    (their docstrings: "use the approach defined in DesignSpace.(un)normalize_vect with `minus_lb`").  As
    ``DesignSpace.normalize_grad`` / ``unnormalize_grad`` are implemented as ``unnormalize_vect(g, minus_lb=False)`` /
    ``normalize_vect(g, minus_lb=False)``, the gradient scalings of EVERY ParameterSpace are wrong as soon as a bounded
    variable has a non-zero lower bound: ``normalize_grad(g)`` returns ``l + g*(u-l)`` instead of ``g*(u-l)``.

(2) ``ParameterSpace.filter_dimensions`` (inherited from DesignSpace, not overridden) keeps the per-variable and the full
    joint distributions of ALL the original components: ``transform_vect`` then applies the CDF of component 0 to the kept
    component 1, ``get_support`` has one row too many, ``compute_samples`` one column too many, ``str()`` raises.
"""
from numpy import array

from gemseo.algos.design_space import DesignSpace
from gemseo.algos.parameter_space import ParameterSpace

bad = False

# ---- (1) minus_lb ---------------------------------------------------------------------------------------------------------
ps = ParameterSpace()
ps.add_variable("d", lower_bound=1.0, upper_bound=3.0)
ps.add_random_variable("t", "SPTriangularDistribution", minimum=2.0, mode=3.0, maximum=6.0)
ds = DesignSpace()
ds.add_variable("d", lower_bound=1.0, upper_bound=3.0)
ds.add_variable("t", lower_bound=2.0, upper_bound=6.0)
x = array([2.0, 4.0])
g = array([0.5, 0.5])
for label, got, exp in (
    ("normalize_vect(x, minus_lb=False)      [x/(u-l)]", ps.normalize_vect(x, minus_lb=False), ds.normalize_vect(x, minus_lb=False)),
    ("unnormalize_vect(g, minus_lb=False)    [g*(u-l)]", ps.unnormalize_vect(g, minus_lb=False), ds.unnormalize_vect(g, minus_lb=False)),
    ("normalize_grad(g)                      [g*(u-l)]", ps.normalize_grad(g), ds.normalize_grad(g)),
    ("unnormalize_grad(g)                    [g/(u-l)]", ps.unnormalize_grad(g), ds.unnormalize_grad(g)),
):
    ok = bool((abs(got - exp) < 1e-12).all())
    print(f"(1) ParameterSpace.{label}: {got}   DesignSpace with the same bounds: {exp}   {'OK' if ok else 'WRONG'}")
    bad |= not ok
got = ps.normalize_vect(x, minus_lb=False, use_dist=True)[0]
print(f"(1) normalize_vect(x, minus_lb=False, use_dist=True), deterministic component: {got}   expected x/(u-l) = {2.0 / (3.0 - 1.0)}   {'OK' if got == 1.0 else 'WRONG'}")
bad |= got != 1.0

# ---- (2) filter_dimensions --------------------------------------------------------------------------------------------------
ps = ParameterSpace()
ps.add_random_vector("v", "SPTriangularDistribution", minimum=[0.0, 2.0], mode=[0.3, 3.0], maximum=[1.0, 6.0])
ps.filter_dimensions("v", [1])  # keep the triangular law on [2, 6]
ref = ParameterSpace()
ref.add_random_variable("v", "SPTriangularDistribution", minimum=2.0, mode=3.0, maximum=6.0)
got, exp = ps.transform_vect(array([3.0])), ref.transform_vect(array([3.0]))
print(f"(2) size {ps.variable_sizes['v']}, bounds {ps.get_lower_bound('v')}..{ps.get_upper_bound('v')}; marginals kept: {ps.distributions['v'].marginals}")
print(f"(2) transform_vect([3.]) = {got}   expected {exp} (CDF of the triangular law on [2, 6])   {'OK' if abs(got - exp).max() < 1e-12 else 'WRONG'}")
bad |= abs(got - exp).max() >= 1e-12
print(f"(2) get_support('v') = {ps.get_support('v').tolist()}   expected {ref.get_support('v').tolist()}")
bad |= ps.get_support("v").shape != (1, 2)
print(f"(2) compute_samples(3).shape = {ps.compute_samples(3).shape}   expected (3, 1)")
bad |= ps.compute_samples(3).shape != (3, 1)
try:
    str(ps)
    print("(2) str(parameter_space): OK")
except ValueError as e:
    print(f"(2) str(parameter_space) raises ValueError: {e}")
    bad = True
raise SystemExit(1 if bad else 0)
