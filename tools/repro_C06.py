"""MDAGaussSeidel on a weakly coupled (acyclic) system listed in reverse order returns data that do not satisfy the disciplines.

Only the STRONG couplings are monitored by MDAGaussSeidel: on an acyclic system the residual vector is empty, the MDA
"converges" after its first sweep and the downstream disciplines keep outputs computed from stale inputs.
MDAJacobi (which monitors all couplings in that case) and MDAChain return the exact solution."""
from numpy import array
from gemseo.disciplines.analytic import AnalyticDiscipline
from gemseo.mda.gauss_seidel import MDAGaussSeidel
from gemseo.mda.jacobi import MDAJacobi
from gemseo.mda.mda_chain import MDAChain


def discs():
    return [AnalyticDiscipline({"y0": "x0"}, name="d0"), AnalyticDiscipline({"y1": "2*y0+x1"}, name="d1"),
            AnalyticDiscipline({"y2": "y1/3-y0"}, name="d2")]


x = {"x0": array([-2.25]), "x1": array([0.0])}
exact = {"y0": -2.25, "y1": -4.5, "y2": 0.75}
bad = False
for label, mda in (("MDAGaussSeidel, listed d0,d1,d2", MDAGaussSeidel(discs(), max_mda_iter=10)),
                   ("MDAGaussSeidel, listed d2,d1,d0", MDAGaussSeidel(discs()[::-1], max_mda_iter=10)),
                   ("MDAJacobi,      listed d2,d1,d0", MDAJacobi(discs()[::-1], max_mda_iter=10, n_processes=1)),
                   ("MDAChain,       listed d2,d1,d0", MDAChain(discs()[::-1]))):
    out = mda.execute(x)
    got = {k: float(out[k][0]) for k in exact}
    ok = all(abs(got[k] - exact[k]) < 1e-9 for k in exact)
    print(f"{label}: {got} {'OK' if ok else 'INCONSISTENT (exact: %s)' % exact}")
    bad |= not ok
raise SystemExit(1 if bad else 0)
