"""Stand-alone reproduction (plain numpy, public gemseo API) of the C17 finding.  Run: /venv/bin/python tools/repro_C17.py

IDF(normalize_constraints=True)  -- the default --  divides each consistency constraint  y_i(x, y_t) - y_t,i  by |ub - lb| of the
coupling variable in the design space.  For a coupling variable without finite bounds (the DesignSpace default) that factor is inf:
the consistency constraints and their Jacobians are identically 0, at every point.  The IDF problem then has no coupling between
the disciplines at all and an optimizer "converges" to a point that is not a multidisciplinary solution, silently.
"""
from numpy import array

from gemseo import create_scenario
from gemseo.algos.design_space import DesignSpace
from gemseo.disciplines.analytic import AnalyticDiscipline
from gemseo.formulations.idf import IDF
from gemseo.formulations.mdf import MDF


def disciplines():
    return [
        AnalyticDiscipline({"y1": "x + 0.5*y2"}, name="d1"),
        AnalyticDiscipline({"y2": "1 - 0.25*y1"}, name="d2"),
        AnalyticDiscipline({"f": "(x - 1)**2 + y1**2 + y2**2"}, name="d3"),
    ]


def space(bounded):
    ds = DesignSpace()
    ds.add_variable("x", lower_bound=-2.0, upper_bound=2.0, value=0.5)
    if bounded:
        ds.add_variable("y1", lower_bound=-4.0, upper_bound=4.0, value=3.0)
        ds.add_variable("y2", lower_bound=-4.0, upper_bound=4.0, value=-2.0)
    else:  # no bounds on the target couplings
        ds.add_variable("y1", value=3.0)
        ds.add_variable("y2", value=-2.0)
    return ds


x = array([0.5, 3.0, -2.0])  # y1(x, y2) = -0.5 != 3,  y2(y1) = 0.25 != -2: NOT a consistent point
for bounded in (True, False):
    problem = IDF(disciplines(), "f", space(bounded)).optimization_problem
    print(f"== coupling variables {'bounded in [-4, 4]' if bounded else 'unbounded'}; inconsistent point x, y1_t, y2_t = {x}")
    for c in problem.constraints:
        print(f"   consistency constraint {c.name}: value {c.evaluate(x)}  jac {c.jac(x)}")

print("== consequence: optimum found by SLSQP")
for name, bounded in (("MDF", True), ("IDF", True), ("IDF", False)):
    scenario = create_scenario(disciplines(), "f", space(bounded), formulation_name=name)
    scenario.execute(algo_name="SLSQP", max_iter=100)
    res = scenario.optimization_result
    xo = scenario.formulation.optimization_problem.design_space.convert_array_to_dict(res.x_opt)
    line = f"   {name} ({'bounded' if bounded else 'unbounded'} couplings): f* = {res.f_opt:.6f}  x* = {xo['x']}"
    if name == "IDF":
        y1, y2 = xo["y1"][0], xo["y2"][0]
        line += f"  y1_t = {y1:.4f} (y1(x, y2_t) = {xo['x'][0] + 0.5 * y2:.4f})  y2_t = {y2:.4f} (y2(y1_t) = {1 - 0.25 * y1:.4f})"
    print(line)
