"""Stand-alone reproduction (public gemseo API, plain float64): run with  PYTHONPATH=/repo/src /venv/bin/python tools/repro_C07_two_cycles.py

Property C07: the total derivatives obtained by linearizing an MDA equal the closed-form implicit-function expression built from the
disciplines' partial Jacobians, whatever the coupling graph.

System: two strongly coupled groups in ONE MDA, the second group reading a strong coupling of the first one:

    D1: x, y2     -> y1          D3: [x,] y1, y4 -> y3
    D2: y1        -> y2          D4: y3          -> y4, f

``_replace_strongly_coupled`` (src/gemseo/core/derivatives/mda_derivatives.py) removes EVERY strong coupling from the inputs of the
discipline standing for a group, including y1, which is a genuine (weak) input of the group {D3, D4} produced by the group {D1, D2}: the
reduced graph loses the edge between the groups, {D1, D2} is not differentiated and the path x -> y1 -> y3 -> f is dropped.

Exit code 1 when a total derivative differs from the closed form (defect present), 0 otherwise.
"""
import logging
import sys

import numpy as np
from gemseo.core.discipline import Discipline
from gemseo.mda.gauss_seidel import MDAGaussSeidel
from gemseo.mda.jacobi import MDAJacobi
from gemseo.mda.mda_chain import MDAChain

logging.disable(logging.CRITICAL)

# coefficients: output <- {input: coefficient}
C = {
    "y1": {"x": np.array([[0.7, -0.4]]), "y2": np.array([[0.3]])},
    "y2": {"y1": np.array([[0.5]])},
    "y3": {"x": np.array([[-0.2, 0.6]]), "y1": np.array([[0.9]]), "y4": np.array([[-0.25]])},
    "y4": {"y3": np.array([[0.4]])},
    "f": {"y3": np.array([[-1.5]])},
}
SIZES = {"x": 2, "y1": 1, "y2": 1, "y3": 1, "y4": 1, "f": 1}


class Lin(Discipline):
    def __init__(self, name, ins, outs):
        super().__init__(name=name)
        self.io.input_grammar.update_from_names(ins)
        self.io.output_grammar.update_from_names(outs)
        self.io.input_grammar.defaults = {k: np.zeros(SIZES[k]) for k in ins}
        self.ins, self.outs = ins, outs

    def _run(self, input_data):
        return {o: sum(C[o][i] @ input_data[i] for i in self.ins if i in C[o]) for o in self.outs}

    def _compute_jacobian(self, input_names=(), output_names=()):
        self.jac = {o: {i: C[o].get(i, np.zeros((SIZES[o], SIZES[i]))).copy() for i in self.ins} for o in self.outs}


def system(d3_reads_x):
    return [Lin("D1", ["x", "y2"], ["y1"]), Lin("D2", ["y1"], ["y2"]),
            Lin("D3", (["x"] if d3_reads_x else []) + ["y1", "y4"], ["y3"]), Lin("D4", ["y3"], ["y4", "f"])]


def closed_form(d3_reads_x):
    """df/dx = df/dy3 . dy3/dx with (1 - a34 a43) dy3/dx = c3x + a31 dy1/dx and (1 - a12 a21) dy1/dx = c1x."""
    dy1 = C["y1"]["x"] / (1 - C["y1"]["y2"] * C["y2"]["y1"])
    dy3 = ((C["y3"]["x"] if d3_reads_x else 0.0) + C["y3"]["y1"] @ dy1) / (1 - C["y3"]["y4"] * C["y4"]["y3"])
    return C["f"]["y3"] @ dy3


bad = 0
x0 = {"x": np.array([1.0, -2.0])}
for d3_reads_x in (True, False):
    ref = closed_form(d3_reads_x)
    def f_of(x):
        return MDAGaussSeidel(system(d3_reads_x), tolerance=1e-15, max_mda_iter=500).execute({"x": x})["f"][0]

    fd = [(f_of(x0["x"] + 1e-6 * e) - f_of(x0["x"] - 1e-6 * e)) / 2e-6 for e in np.eye(2)]
    print(f"D3 reads x: {d3_reads_x}; closed form df/dx = {ref.ravel()}; centred differences of the converged MDA = {np.round(fd, 6)}")
    for cls, kw in ((MDAGaussSeidel, {}), (MDAJacobi, {}), (MDAChain, dict(inner_mda_name="MDAGaussSeidel"))):
        for mode in ("direct", "adjoint"):
            if cls is MDAChain:
                mda = cls(system(d3_reads_x), tolerance=1e-14, max_mda_iter=200, inner_mda_settings=dict(tolerance=1e-14, max_mda_iter=200), **kw)
            else:
                mda = cls(system(d3_reads_x), tolerance=1e-14, max_mda_iter=200)
            mda.linearization_mode = mode
            mda.add_differentiated_inputs(["x"])
            mda.add_differentiated_outputs(["f"])
            try:
                got = np.asarray(mda.linearize(x0)["f"]["x"])
                ok = np.allclose(got, ref, rtol=1e-9, atol=1e-12)
                print(f"  {cls.__name__:15s} {mode:8s} df/dx = {got.ravel()}  {'ok' if ok else 'WRONG'}")
            except Exception as e:  # noqa: BLE001
                ok = False
                print(f"  {cls.__name__:15s} {mode:8s} raises {type(e).__name__}: {e}")
            bad += not ok
print("DEFECT PRESENT" if bad else "no defect", f"({bad} wrong results)")
sys.exit(1 if bad else 0)
