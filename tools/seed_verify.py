#!/usr/bin/env python3
"""Confirm a seeded change and store it under /verif/seeded/<name>/.
usage: tools/seed_verify.py <PROP> <name> <patch.diff> <demo.py> [--tests "tests/algos tests/core"] [--needs "text"] [--tier quick]
Steps (all in a scratch worktree of /repo HEAD under /tmp, removed afterwards):
  1. patch applies; 2. demo exits 0 on pristine and !=0 with the patch; 3. the pinned baseline tests of the given dirs (default: whole suite)
  still pass with the patch; 4. ./check <PROP> against the patched tree: exit code and VIOLATION lines recorded."""
import json, os, shutil, subprocess, sys, tempfile, time
a = sys.argv[1:]
prop, name, patch, demo = a[0], a[1], os.path.abspath(a[2]), os.path.abspath(a[3])
opt = lambda k, d: a[a.index(k) + 1] if k in a else d
tests = opt("--tests", "tests").split()
needs = opt("--needs", "")
tier = opt("--tier", "quick")
wt = tempfile.mkdtemp(prefix="wt_seedv_", dir="/tmp"); os.rmdir(wt)
meta = dict(property=prop, name=name, needs_to_manifest=needs, ran=[])
try:
    subprocess.run(["git", "-C", "/repo", "worktree", "add", "-q", "--detach", wt, "HEAD"], check=True)
    env = dict(os.environ, PYTHONPATH=f"{wt}/src", PYTHONWARNINGS="ignore")
    r0 = subprocess.run(["/venv/bin/python", demo], cwd=wt, env=env, capture_output=True, text=True)
    meta["demo_pristine_exit"] = r0.returncode
    ap = subprocess.run(["git", "-C", wt, "apply", patch], capture_output=True, text=True)
    meta["patch_applies"] = ap.returncode == 0
    if ap.returncode:
        print("PATCH DOES NOT APPLY", ap.stderr); sys.exit(2)
    r1 = subprocess.run(["/venv/bin/python", demo], cwd=wt, env=env, capture_output=True, text=True)
    meta["demo_patched_exit"] = r1.returncode
    meta["demo_patched_output"] = (r1.stdout + r1.stderr)[-1500:]
    meta["ran"].append(f"demo: pristine exit {r0.returncode}, patched exit {r1.returncode}")
    t0 = time.time()
    b = subprocess.run(["python3", "/verif/tools/baseline.py", *tests], env=dict(os.environ, BASELINE_REPO=wt), capture_output=True, text=True)
    meta["baseline"] = b.stdout.strip().splitlines()[:12]
    meta["baseline_ok"] = b.returncode == 0 or all("test_ml_regressor_quality_viewer" in l for l in b.stdout.splitlines() if "MISSING" in l)
    meta["ran"].append(f"tools/baseline.py {' '.join(tests)} on the patched tree: {meta['baseline'][0] if meta['baseline'] else b.stderr[-200:]} ({time.time() - t0:.0f}s)")
    c = subprocess.run(["/verif/check", prop, "--tier", tier, "--no-evidence"], env=dict(os.environ, VERIF_REPO=wt, PYTHONWARNINGS="ignore"), capture_output=True, text=True, cwd="/verif")
    viol = [l for l in c.stdout.splitlines() if l.startswith("VIOLATION")]
    detail = [l.strip()[:400] for l in c.stdout.splitlines() if l.strip().startswith("harness=")][:5]
    meta["check_exit"] = c.returncode
    meta["check_caught"] = c.returncode == 1 and bool(viol)
    meta["check_first_violations"] = detail
    meta["check_summary"] = c.stdout.strip().splitlines()[-1][:400] if c.stdout.strip() else c.stderr[-300:]
    meta["ran"].append(f"VERIF_REPO=<patched worktree> ./check {prop} --tier {tier}: exit {c.returncode}, {len(viol)} VIOLATION line(s)")
finally:
    subprocess.run(["git", "-C", "/repo", "worktree", "remove", "--force", wt], capture_output=True)
    shutil.rmtree(wt, ignore_errors=True)
    shutil.rmtree("/verif/evidence/replays", ignore_errors=True)
confirmed = meta.get("demo_pristine_exit") == 0 and meta.get("demo_patched_exit") not in (0, None) and meta.get("baseline_ok")
meta["confirmed"] = bool(confirmed)
d = f"/verif/seeded/{name}"
if confirmed:
    os.makedirs(d, exist_ok=True)
    shutil.copy(patch, f"{d}/patch.diff"); shutil.copy(demo, f"{d}/{os.path.basename(demo)}")
    json.dump(meta, open(f"{d}/meta.json", "w"), indent=1)
print(json.dumps({k: meta[k] for k in ("confirmed", "demo_pristine_exit", "demo_patched_exit", "baseline", "check_exit", "check_caught", "check_first_violations", "check_summary") if k in meta}, indent=1)[:3000])
