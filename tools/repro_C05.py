"""Stand-alone reproduction of the C05 findings (public gemseo API only, plain numpy).

    /venv/bin/python /verif/tools/repro_C05.py

A. MemoryFullCache(is_memory_shared=False), reachable with discipline.set_cache("MemoryFullCache", is_memory_shared=False), stores
   the caller's input arrays, the returned output arrays and the returned Jacobian blocks BY REFERENCE
   (memory_full_cache.py:_write_data does ``data[group] = copy(values)``: a shallow copy of the mapping).
B. SimpleCache (the default cache of every discipline) hands out its own output arrays on a hit and stores the Jacobian by reference
   (simple_cache.py:__getitem__ returns last_entry, cache_jacobian does ``self.__jacobian = jacobian_data``).
C. SimpleCache with a tolerance attaches the Jacobian computed at a point x1 to the entry of x0 (cache_jacobian matches with the tolerance):
   a request x2 within the tolerance of x0 but not of x1 is served the Jacobian of x1.
"""
from numpy import array

from gemseo.core.discipline import Discipline


class D(Discipline):
    """y = a0**2 + 10*a1 + 100*b, dy/da = [2*a0, 10], dy/db = [100]."""

    default_grammar_type = Discipline.GrammarType.SIMPLE

    def __init__(self):
        super().__init__("D")
        self.input_grammar.update_from_names(["a", "b"])
        self.output_grammar.update_from_names(["y"])
        self.default_input_data = {"b": array([1.0])}
        self.n_run = self.n_jac = 0

    def _run(self, input_data):
        self.n_run += 1
        a, b = input_data["a"], input_data["b"]
        return {"y": array([a[0] ** 2 + 10 * a[1] + 100 * b[0]])}

    def _compute_jacobian(self, input_names=(), output_names=()):
        self.n_jac += 1
        a = self.io.data["a"]
        self.jac = {"y": {"a": array([[2 * a[0], 10.0]]), "b": array([[100.0]])}}


def make(cache_type, tolerance=0.0, **kwargs):
    d = D()
    d.set_cache(cache_type, tolerance=tolerance, **kwargs)
    return d


CT = Discipline.CacheType
bad = 0


def report(what, got, expected):
    global bad
    ok = str(got) == str(expected)
    bad += not ok
    print(f"   {'ok ' if ok else 'BUG'} {what}: got {got}, expected {expected}")


print("A. MemoryFullCache(is_memory_shared=False): the caller re-uses its input buffer")
for tol in (0.0, 0.1):
    print(f"  tolerance={tol}")
    d = make(CT.MEMORY_FULL, tol, is_memory_shared=False)
    a = array([1.0, 2.0])
    report("execute(a=[1,2])", d.execute({"a": a})["y"].tolist(), [121.0])
    a[0] = 5.0  # same array object, new value
    report("execute(a=[5,2]) with the same array object", d.execute({"a": a})["y"].tolist(), [145.0])
    report("execute(a=[1,2]) again", d.execute({"a": array([1.0, 2.0])})["y"].tolist(), [121.0])
    report("number of runs of the body", d.n_run, 2)
    report("cache entries (inputs a -> y)", sorted((e.inputs["a"].tolist(), e.outputs["y"].tolist()) for e in d.cache.get_all_entries()),
           [([1.0, 2.0], [121.0]), ([5.0, 2.0], [145.0])])

print("A'. MemoryFullCache(is_memory_shared=False) and B. SimpleCache: the caller modifies a RETURNED array in place")
for name, d_factory in (("MemoryFullCache(is_memory_shared=False)", lambda: make(CT.MEMORY_FULL, is_memory_shared=False)),
                        ("SimpleCache (default)", lambda: make(CT.SIMPLE)),
                        ("MemoryFullCache() (shared memory: entries are pickled)", lambda: make(CT.MEMORY_FULL))):
    print(f"  {name}")
    d = d_factory()
    y = d.execute({"a": array([1.0, 2.0])})["y"]
    y += 1000.0  # array returned by the execution that ran the body
    y = d.execute({"a": array([1.0, 2.0])})["y"]
    report("execute(a=[1,2]) after modifying the array returned by the first execution", y.tolist(), [121.0])
    y += 1000.0  # array returned by a cache hit
    report("execute(a=[1,2]) after modifying the array returned by the cache hit", d.execute({"a": array([1.0, 2.0])})["y"].tolist(), [121.0])
    d = d_factory()
    jac = d.linearize({"a": array([1.0, 2.0])}, compute_all_jacobians=True)
    jac["y"]["a"] *= 0.0
    report("linearize(a=[1,2]) after zeroing the returned dy/da in place",
           d.linearize({"a": array([1.0, 2.0])}, compute_all_jacobians=True)["y"]["a"].tolist(), [[2.0, 10.0]])

print("C. SimpleCache(tolerance=0.25): Jacobian computed at x1 stored in the entry of x0, served for x2 (not within the tolerance of x1)")
d = make(CT.SIMPLE, 0.25)
d.execute({"a": array([0.0, 0.0])})                                                   # x0: entry (x0, y(x0))
j1 = d.linearize({"a": array([0.2, 0.0])}, compute_all_jacobians=True)["y"]["a"].tolist()  # x1 within 0.25 of x0: hit, Jacobian computed at x1
print(f"   linearize(a=[0.2,0]) -> dy/da = {j1} (computed at x1, stored in the entry of x0=[0,0])")
j2 = d.linearize({"a": array([-0.2, 0.0])}, compute_all_jacobians=True)["y"]["a"].tolist()
print("   x2=[-0.2,0]: |x2-x0| = 0.2 <= 0.25*(1+|x0|) = 0.25 but |x2-x1| = 0.4 > 0.25*(1+|x1|) = 0.3 and > 0.25*(1+|x2|) = 0.3")
ok = j2 in ([[0.0, 10.0]], [[-0.4, 10.0]])
bad += not ok
print(f"   {'ok ' if ok else 'BUG'} linearize(a=[-0.2,0]): got {j2}, expected [[0.0, 10.0]] (entry x0) or [[-0.4, 10.0]] (recomputed); [[0.4, 10.0]] is the Jacobian at x1")
print(f"{bad} unexpected result(s)")
