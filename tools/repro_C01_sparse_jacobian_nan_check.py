"""C01 defect: with functions expecting PHYSICAL inputs, a database and support_sparse_jacobian=True, requesting a sparse Jacobian raises
TypeError: ProblemFunction._compute_jacobian_db passes the sparse object itself to numpy.isnan (its normalized twin passes ``.data``).

Run: PYTHONPATH=/repo/src /venv/bin/python /verif/tools/repro_C01_sparse_jacobian_nan_check.py      (exit 1 = defect present)
"""
import sys

import numpy as np
from scipy.sparse import csr_array

from gemseo.algos.design_space import DesignSpace
from gemseo.algos.optimization_problem import OptimizationProblem
from gemseo.core.mdo_functions.mdo_function import MDOFunction
from gemseo.core.mdo_functions.mdo_linear_function import MDOLinearFunction

bad = 0
for what in ("MDOLinearFunction with sparse coefficients", "MDOFunction with a sparse user Jacobian"):
    space = DesignSpace()
    space.add_variable("x", 2, lower_bound=0.0, upper_bound=2.0)
    problem = OptimizationProblem(space)
    if what.startswith("MDOLinear"):
        problem.objective = MDOLinearFunction(csr_array(np.array([[1.0, 0.0], [0.0, 2.0]])), "f", value_at_zero=np.zeros(2))
    else:
        problem.objective = MDOFunction(lambda x: np.array([x[0], 2 * x[1]]), "f", jac=lambda x: csr_array(np.array([[1.0, 0.0], [0.0, 2.0]])))
    problem.preprocess_functions(is_function_input_normalized=False, use_database=True, support_sparse_jacobian=True)
    try:
        jac = problem.objective.jac(np.array([1.0, 1.0]))
        print(what, "->", jac.toarray().tolist())
    except TypeError as error:
        bad += 1
        print(what, "-> TypeError:", error)
sys.exit(1 if bad else 0)
