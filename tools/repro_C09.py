"""Stand-alone reproductions (plain numpy, public gemseo API) of the C09 findings.  Run: /venv/bin/python tools/repro_C09.py

A  MDOChain: a discipline that reads and overwrites the same variable is linearized at its OUTPUT value
B  MDOChain: a variable produced twice - the derivative through the first (dead) producer is still accumulated
C  MDOChain: a discipline reading b and writing a and b - contributions through a are chained twice
D  MDOAdditiveChain.linearize raises KeyError/AssertionError for legitimate requests
E  MDOParallelChain: two disciplines produce the same output - the value is the last one's, the Jacobian mixes both
"""
import traceback

from numpy import array, atleast_2d

from gemseo.core.chains.additive_chain import MDOAdditiveChain
from gemseo.core.chains.chain import MDOChain
from gemseo.core.chains.parallel_chain import MDOParallelChain
from gemseo.core.discipline import Discipline
from gemseo.disciplines.analytic import AnalyticDiscipline


class Fn(Discipline):
    """Scalar-variable discipline: outputs[name] = (f(**inputs), {input: df/dinput(**inputs)})."""

    default_grammar_type = Discipline.GrammarType.SIMPLE

    def __init__(self, name, inputs, outputs):
        super().__init__(name)
        self.fns = outputs
        self.io.input_grammar.update_from_names(inputs)
        self.io.output_grammar.update_from_names(list(outputs))
        self.io.input_grammar.defaults = {n: array([0.0]) for n in inputs}

    def _run(self, input_data):
        kw = {n: input_data[n][0] for n in self.io.input_grammar}
        return {o: array([f(**kw)]) for o, (f, _) in self.fns.items()}

    def _compute_jacobian(self, input_names=(), output_names=()):
        # Discipline.linearize resets self.io.data to the input values before calling this method
        kw = {n: self.io.data[n][0] for n in self.io.input_grammar}
        self.jac = {o: {i: atleast_2d(df(**kw)) for i, df in d.items()} for o, (_, d) in self.fns.items()}


def lin(name, inputs, **outputs):
    """Linear discipline: lin("d", ["x"], y={"x": 3.0}) is y = 3x."""
    return Fn(name, inputs, {o: ((lambda c: (lambda **kw: sum(c[i] * kw[i] for i in c)))(c), {i: (lambda v: (lambda **kw: v))(v) for i, v in c.items()})
                             for o, c in outputs.items()})


print("== A: read-write discipline linearized at its output value")
d1 = lin("d1", ["x"], y={"x": 3.0})
d2 = Fn("d2", ["y"], {"y": (lambda y: y ** 2, {"y": lambda y: 2.0 * y})})  # y <- y^2
print("d2 alone, dy/dy at y=6:", Fn("d2", ["y"], d2.fns).linearize({"y": array([6.0])}, compute_all_jacobians=True)["y"]["y"], "(12: correct)")
chain = MDOChain([d1, d2])
print("y(x=2) =", chain.execute({"x": array([2.0])})["y"], "= (3x)^2")
print("dy/dx  =", chain.linearize({"x": array([2.0])}, compute_all_jacobians=True)["y"]["x"], "expected 2*(3x)*3 = 36")

print("== B: dead producer")
chain = MDOChain([lin("d1", ["x"], y={"x": 5.0}), lin("d2", ["u"], y={"u": 7.0}), lin("d3", ["y"], z={"y": 2.0})])
p = {"x": array([1.0]), "u": array([1.0])}
print("z =", chain.execute(p)["z"], "= 14u (independent of x)")
jac = chain.linearize(p, compute_all_jacobians=True)
print("dz/dx =", jac["z"]["x"], "expected 0;  dz/du =", jac["z"]["u"], "expected 14")
chain = MDOChain([lin("B", ["v2"], v6={"v2": 3.0}), lin("C", ["v3"], v2={"v3": 4.0}), lin("G", ["v2"], v0={"v2": 5.0})])
jac = chain.linearize({"v2": array([1.0]), "v3": array([1.0])}, compute_all_jacobians=True)
print("chain input v2 overwritten by C before G reads it: dv0/dv2 =", jac["v0"]["v2"], "expected 0;  dv0/dv3 =", jac["v0"]["v3"], "expected 20")

print("== C: discipline reading b, writing a and b")
chain = MDOChain([lin("d1", ["x"], b={"x": 1.0}), lin("d2", ["b"], a={"b": 2.0}, b={"b": 3.0}), lin("d3", ["a", "b"], z={"a": 1.0, "b": 1.0})])
print("z(x=1) =", chain.execute({"x": array([1.0])})["z"], "= 5x")
print("dz/dx  =", chain.linearize({"x": array([1.0])}, compute_all_jacobians=True)["z"]["x"], "expected 5")

print("== D: additive chain")
c = MDOAdditiveChain([AnalyticDiscipline({"s": "2*x", "a": "x**2"}, name="d1"), AnalyticDiscipline({"s": "3*x"}, name="d2")], ["s"], n_processes=1)
c.add_differentiated_inputs(["x"])
c.add_differentiated_outputs(["a"])  # only the non-summed output is requested
try:
    print("da/dx:", c.linearize({"x": array([1.0])}))
except BaseException:
    traceback.print_exc(limit=-1)
c = MDOAdditiveChain([AnalyticDiscipline({"s": "2*x"}, name="d1"), AnalyticDiscipline({"s": "3*x"}, name="d2"), AnalyticDiscipline({"c": "4*w"}, name="d3")], ["s"], n_processes=1)
try:
    print(c.linearize({"x": array([1.0]), "w": array([1.0])}, compute_all_jacobians=True))  # ds/dw is a zero block
except BaseException:
    traceback.print_exc(limit=-1)
c = MDOAdditiveChain([lin("d1", ["x"], s={"x": 2.0}), lin("d2", ["x"], s={"x": 3.0}), lin("d3", ["w"], c={"w": 4.0})], ["s"], n_processes=1)
try:
    print(c.linearize({"x": array([1.0]), "w": array([1.0])}, compute_all_jacobians=True))  # d3 (plain dict jac) does not compute s
except BaseException:
    traceback.print_exc(limit=-1)

print("== E: parallel chain, duplicated output")
c = MDOParallelChain([lin("d1", ["x"], y={"x": 5.0}), lin("d2", ["u"], y={"u": 7.0})], n_processes=1)
print("y =", c.execute(p)["y"], "= 7u")
jac = c.linearize(p, compute_all_jacobians=True)
print("dy/dx =", jac["y"]["x"], "expected 0;  dy/du =", jac["y"]["u"], "expected 7")
