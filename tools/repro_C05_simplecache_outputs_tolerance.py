"""C05: SimpleCache with a tolerance attached outputs computed at x' to an entry created (by linearize(execute=False)) at x;
a later input within the tolerance of x but not of x' was served f(x').  Exit 1 = defect present."""
import sys
from numpy import array
from gemseo.disciplines.analytic import AnalyticDiscipline

d = AnalyticDiscipline({"y": "b**3"})
d.set_cache(d.CacheType.SIMPLE, tolerance=0.1)
d.execute({"b": array([5.0])})        # (the discipline has run once, far away)
d.linearize({"b": array([1.0])}, compute_all_jacobians=True, execute=False)
d.execute({"b": array([0.85])})       # within 0.1*(1+.) of 1.0: no outputs there yet, the body runs at 0.85
y = d.execute({"b": array([1.2])})["y"][0]   # within the tolerance of 1.0, NOT of 0.85 (|1.2-0.85| = 0.35 > 0.22)
print("execute(b=1.2) returned", y, "; f(1.2) =", 1.2**3, "; f(1.0) =", 1.0, "; f(0.85) =", 0.85**3)
sys.exit(1 if abs(y - 0.85**3) < 1e-12 else 0)
